#!/usr/bin/env bash
# Re-runs the property's quick check against every stored seeded change (seeded/<id>/patch.diff applied to a
# fresh scratch worktree of /repo HEAD) and rewrites seeded/<id>/meta.json:checks_run. usage: recheck_seeds.sh [id ...]
set -u
export GOFLAGS=-mod=mod GOPROXY=off GOSUMDB=off GOTOOLCHAIN=local
cd /verif
ids=("$@"); [ ${#ids[@]} -eq 0 ] && ids=($(ls seeded | grep '^C'))
run_one() {
  id=$1; P=${id%%-*}; D=/verif/seeded/$id
  WT=/dev/shm/rs-$id; rm -rf $WT
  git -C /repo worktree add -q --detach $WT HEAD 2>/dev/null || { echo "$id worktree-failed"; return; }
  if ! git -C $WT apply $D/patch.diff 2>/dev/null; then echo "$id PATCH-DOES-NOT-APPLY"; git -C /repo worktree remove --force $WT; return; fi
  o=$(VERIF_REPO=$WT VERIF_OUT=/dev/shm/rs-out-$id ./check $P quick 2>&1); rc=$?
  sig=$(echo "$o" | grep "failing signature" | head -3 | sed 's/  failing signature //' | tr '\n' ';')
  v=MISSED; [ $rc = 1 ] && v=CAUGHT; [ $rc = 2 ] && v=BROKEN
  echo "$id $v $sig" | cut -c1-200
  jq --arg q "$P" --arg v "$v" --arg s "$sig" --arg b "$(git -C /repo rev-parse --short HEAD)" --arg h "$(git -C /verif rev-parse --short HEAD)" \
     '.checks_run=[{check:$q,tier:"quick",verdict:$v,signatures:$s}] | .goit_base=$b | .verif_commit=$h' $D/meta.json > $D/meta.json.tmp && mv $D/meta.json.tmp $D/meta.json
  git -C /repo worktree remove --force $WT; rm -rf /dev/shm/rs-out-$id
}
git -C /repo worktree prune
for id in "${ids[@]}"; do run_one $id; done
