#!/usr/bin/env bash
# Re-runs the property's quick check against every stored seeded change (seeded/<id>/patch.diff applied to a
# fresh scratch worktree of /repo HEAD) and rewrites seeded/<id>/meta.json:checks_run. usage: recheck_seeds.sh [id ...]
# FULL=1 also re-confirms the change itself (build, the 147 tests, demo exits 0 without / 1 with the change).
# seeded/<id>/RETARGET (optional, one line of property ids + a reason in meta.json:retarget_note) names the checks
# to run when a later fix: commit made the change harmless for its original property but not for others.
set -u
export GOFLAGS=-mod=mod GOPROXY=off GOSUMDB=off GOTOOLCHAIN=local
cd /verif
ids=("$@"); [ ${#ids[@]} -eq 0 ] && ids=($(ls seeded | grep '^C'))
run_one() {
  id=$1; P=${id%%-*}; D=/verif/seeded/$id
  WT=/dev/shm/rs-$id; rm -rf $WT
  git -C /repo worktree add -q --detach $WT HEAD 2>/dev/null || { echo "$id worktree-failed"; return; }
  if [ -n "${FULL:-}" ] && [ -f $D/demo.sh ]; then
    cp $D/demo.sh $WT/; [ -d $D/demo ] && cp -r $D/demo $WT/demo
    ( cd $WT && bash demo.sh >/dev/null 2>&1 ); dc=$?
  fi
  if ! git -C $WT apply $D/patch.diff 2>/dev/null; then echo "$id PATCH-DOES-NOT-APPLY"; git -C /repo worktree remove --force $WT; return; fi
  if [ -n "${FULL:-}" ]; then
    b=ok; ( cd $WT && go build ./... && go build -tags verif ./... ) >/dev/null 2>&1 || b=FAIL
    t=ok; ( cd $WT && go test -vet=off -count=1 ./... ) >/dev/null 2>&1 || t=FAIL
    ds=NA; [ -f $WT/demo.sh ] && { ( cd $WT && bash demo.sh >/dev/null 2>&1 ); ds=$?; }
    echo "$id build=$b tests=$t demo_clean_exit=${dc:-NA} demo_seeded_exit=$ds"
    jq --arg b "$b" --arg t "$t" --arg dc "${dc:-NA}" --arg ds "$ds" '.compiles=$b | .baseline_tests=$t | .demo_exit_unchanged_tree=$dc | .demo_exit_with_change=$ds' $D/meta.json > $D/meta.json.tmp && mv $D/meta.json.tmp $D/meta.json
  fi
  props=$P; [ -f $D/RETARGET ] && props=$(cat $D/RETARGET)
  results="[]"; line=""
  for q in $props; do
    o=$(VERIF_REPO=$WT VERIF_OUT=/dev/shm/rs-out-$id ./check $q quick 2>&1); rc=$?
    sig=$(echo "$o" | grep "failing signature" | head -3 | sed 's/  failing signature //' | tr '\n' ';')
    v=MISSED; [ $rc = 1 ] && v=CAUGHT; [ $rc = 2 ] && v=BROKEN
    line="$line $q:$v $sig"
    results=$(echo "$results" | jq --arg q "$q" --arg v "$v" --arg s "$sig" '. + [{check:$q,tier:"quick",verdict:$v,signatures:$s}]')
  done
  echo "$id$line" | cut -c1-200
  jq --argjson r "$results" --arg b "$(git -C /repo rev-parse --short HEAD)" --arg h "$(git -C /verif rev-parse --short HEAD)" \
     '.checks_run=$r | .goit_base=$b | .verif_commit=$h' $D/meta.json > $D/meta.json.tmp && mv $D/meta.json.tmp $D/meta.json
  git -C /repo worktree remove --force $WT; rm -rf /dev/shm/rs-out-$id
}
git -C /repo worktree prune
for id in "${ids[@]}"; do run_one $id; done
