#!/usr/bin/env bash
# tools/coverage.sh [tier] [seed] [ids...]   statement coverage of /repo reached by the checks' workloads
# (a map of what the monitors can have observed; not a check and not registered in MANIFEST.json)
# writes coverage/<tier>/{per-check.tsv,functions.txt,uncovered.txt,functions-faults.txt}
set -u
cd "$(dirname "$0")/.."
TIER="${1:-quick}"; SEED="${2:-1}"; shift 2 2>/dev/null || true
IDS=("$@"); [ ${#IDS[@]} -eq 0 ] && IDS=($(seq -f 'C%02g' 1 20))
export GOFLAGS=-mod=mod GOPROXY=off GOSUMDB=off GOTOOLCHAIN=local
COV="$(mktemp -d -p /dev/shm cov.XXXXXX)"; trap 'rm -rf "$COV"' EXIT
OUT="coverage/$TIER"; mkdir -p "$OUT"; : > "$OUT/per-check.tsv"
count() { ( cd /repo && go tool covdata textfmt -i="$1" -o=/dev/stdout 2>/dev/null | grep -v "/verifvfs/\|^verif/" | awk 'NR>1{split($0,a," "); st+=a[2]; if(a[3]>0) cv+=a[2]} END{if(st) printf "%d/%d", cv, st}' ); }
for id in "${IDS[@]}"; do
  VERIF_COVER="$COV/n" VERIF_OUT="$COV/out" VERIF_SEED="$SEED" ./check "$id" "$TIER" >"$COV/$id.log" 2>&1
  rc=$?
  line="$id\trc=$rc\tstatements=$(count "$COV/n/$id")"
  case "$id" in C15|C16)
    # second run: counters in the fault-injected copy (error and crash paths)
    VERIF_COVER="$COV/f" VERIF_COVER_VFS=1 VERIF_OUT="$COV/out" VERIF_SEED="$SEED" ./check "$id" "$TIER" >"$COV/$id.f.log" 2>&1
    line="$line\tunder-faults=$(count "$COV/f/$id")";;
  esac
  printf "$line\n" | tee -a "$OUT/per-check.tsv"
done
dirs=$(ls -d "$COV"/n/C?? | paste -sd,)
( cd /repo && go tool covdata textfmt -i="$dirs" -o=/dev/stdout | grep -v "^verif/" > "$COV/all.txt" && go tool cover -func="$COV/all.txt" > "/verif/$OUT/functions.txt" )
# statements never reached by any check (file:startline.col,endline.col)
grep -v "^verif/" "$COV/all.txt" | awk 'NR>1{split($0,a," "); k=a[1]; if(!(k in c)||a[3]>c[k]) c[k]=a[3]} END{for(k in c) if(c[k]==0) print k}' "$COV/all.txt" | sort -t: -k1,1 -k2,2n > "$OUT/uncovered.txt"
if ls -d "$COV"/f/C?? >/dev/null 2>&1; then
  dirs=$(ls -d "$COV"/f/C?? | paste -sd,)
  ( cd /repo && go tool covdata textfmt -i="$dirs" -o=/dev/stdout | grep -v "/verifvfs/\|^verif/" > "$COV/allf.txt" && go tool cover -func="$COV/allf.txt" > "/verif/$OUT/functions-faults.txt" )
  tail -1 "$OUT/functions-faults.txt"
  python3 tools/covreport.py "$COV/all.txt" /repo "$COV/allf.txt" "$COV/f/src" > "$OUT/uncovered-everywhere.txt"
  wc -l "$OUT/uncovered-everywhere.txt"
fi
tail -1 "$OUT/functions.txt"; wc -l "$OUT/uncovered.txt"
