#!/usr/bin/env bash
# usage: runall.sh <tier> [seed]  — runs every check, prints one line per property
tier=${1:-quick}; seed=${2:-1}
cd "$(dirname "${BASH_SOURCE[0]}")/.."
for i in $(seq -w 1 20); do
  p=C$i
  s=$(date +%s.%N)
  out=$(VERIF_SEED=$seed ./check $p $tier 2>&1); rc=$?
  e=$(date +%s.%N)
  printf "%s rc=%d %.1fs  %s\n" $p $rc $(echo "$e - $s" | bc) "$(echo "$out" | grep -E "^$p |KNOWN|VIOLATION|BROKEN" | tr '\n' ' ' | cut -c1-220)"
done
