#!/usr/bin/env python3
# Regenerates /verif/MANIFEST.json from the table below and the hook commits in /repo.
import json, subprocess
props=[json.loads(l) for l in open('/verif/properties.jsonl')]
tech={
 'C01':"runtime monitoring: in-process oracle (independent SHA-1/zlib decoder) around the real object store + byte-exact CLI observation",
 'C02':"runtime monitoring: reference-model oracle over per-command pre/post snapshots of real goit processes (independent tree/commit decoders, shadow blob bytes)",
 'C03':"runtime monitoring: invariant checker (independent fsck + object immutability) after every command of hostile random histories",
 'C04':"runtime monitoring: reference-model oracle (acceptable post-state sets) over add/rm events of random histories",
 'C05':"runtime monitoring: shadow-state monitor (staged set per commit) + read-back through reset/ls-files/cat-file; in-process trees with chosen id bytes",
 'C06':"runtime monitoring: bounded-exhaustive in-process lookup oracle + on-disk index invariant checker at every index rewrite",
 'C07':"runtime monitoring: status/commit oracle from independently decoded (HEAD snapshot, index) pairs; bounded-exhaustive name sets + random histories",
 'C08':"runtime monitoring: reference-model oracle over reset events (reflog parsed before each reset, byte snapshots of the working tree)",
 'C09':"runtime monitoring: reference-model oracle over restore events of random histories",
 'C10':"runtime monitoring: explicit-state exploration of the real binary (snapshot/restore) checked against a reference state machine, plus random walks",
 'C11':"runtime monitoring: online trace checker (append-only suffix property of successive reflog listings) + reset/reflog agreement",
 'C12':"runtime monitoring: in-process round-trip oracle over all quarter-hour offsets + CLI runs under synthetic TZif zones and a pinned clock",
 'C13':"runtime monitoring: status oracle computed from byte snapshots; metamorphic checks (identical rewrite, mtime-only)",
 'C14':"runtime monitoring: log oracle from the independently decoded parent chain; metamorphic independence checks",
 'C15':"runtime fault injection: SIGKILL before every mutating file-system operation (source-rewritten counting shim) + post-crash invariant oracle",
 'C16':"runtime fault injection: errno / partial write at every file-system operation (source-rewritten counting shim) + differential oracle against the fault-free run",
 'C17':"runtime monitoring: staged-set/ignore oracle after every add and status; byte comparison of .goit around restore/reset",
 'C18':"runtime monitoring: crash/exit/CPU oracle on every process + refused-command frame check over generated command lines",
 'C19':"runtime monitoring: in-process decoders under recover/allocation/time guards on systematically mutated valid files; wrong-content oracle; child process per shard",
 'C20':"runtime monitoring: model-map oracle over config writes and effective-identity / refusal oracle over commits",
}
level={p:'exploration' for p in tech}
for p in ('C15','C16','C19'): level[p]='fault_enumeration'
text={
 'exploration':"held on the executions listed in the evidence file (commands, histories, distinct classes, oracle evaluations); bounded-exhaustive only where the evidence says so; nothing is claimed about inputs or histories the workload did not drive",
 'fault_enumeration':"every fault position of every executed (pre-state, command) pair was enumerated and judged (C15/C16), resp. every truncation/deletion and sampled substitutions of every corpus file (C19); reach over pre-states is the scenario corpus plus seeded random histories",
}
hooks=subprocess.run(['git','-C','/repo','log','--format=%H %s'],capture_output=True,text=True).stdout.splitlines()
hook_commits=[l.split()[0] for l in hooks if l.split(' ',1)[1].startswith('verif hook')]
checks=[]
for p in props:
    i=p['id']
    checks.append({"property_id":i,"quick_cmd":f"./check {i} quick","thorough_cmd":f"./check {i} thorough","evidence_file":f"evidence/{i}.json",
      "replay_cmd_template":"./check replay {path}","engine":"goitmon",
      "level_claimed":{"category":level[i],"text":text[level[i]],"design_ref":f"DESIGN.md §6 {i}"},
      "level_note":"trusted base: Go std (os, os/exec, compress/zlib, crypto/sha1), the independent decoders in harness/gitfmt, the reference model in harness/mon; observation at the process boundary (one real goit process per command); known findings in known_findings.json",
      "technique":tech[i]})
m={"version":1,"setup_cmd":"./setup.sh",
 "hooks":{"guard":"verif","enable":"go build -tags verif (package verifapi; C15/C16/C12 additionally rewrite os.*/time.Now call sites of a scratch copy to the verifvfs shim)","baseline_off_cmd":"cd /repo && go test -json -vet=off -count=1 ./...","source_commits":hook_commits,"add_only":True},
 "engines":[{"name":"goitmon","path":"harness/cmd/goitmon","serves_properties":[p['id'] for p in props],"kind_free_text":"runtime monitors over real goit processes: snapshots, independent decoders, reference model, fault injection"},
            {"name":"goitin","path":"harness/inproc","serves_properties":["C01","C05","C06","C12","C19","C20"],"kind_free_text":"in-process monitors linking the current /repo sources via the verif-tagged verifapi package"},
            {"name":"vfsrewrite","path":"harness/cmd/vfsrewrite","serves_properties":["C15","C16","C12"],"kind_free_text":"go/ast rewriter routing every os.* / time.Now call site of a scratch copy through a counting fault-injection shim"}],
 "checks":checks,"not_applicable":[],
 "notes":"VERIF_SEED selects the PRNG stream; case lists are fixed by (seed, tier), never by a time budget. Scratch space: ${VERIF_SCRATCH:-/dev/shm}, removed on exit."}
json.dump(m,open('/verif/MANIFEST.json','w'),indent=1)
print("manifest written:",len(checks),"checks; hook commits",hook_commits)
