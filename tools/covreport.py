#!/usr/bin/env python3
"""covreport.py all.txt srcroot allf.txt srcroot_f: blocks reached neither by the ordinary binaries nor by the
fault-injected copy (whose line numbers differ: blocks are matched by file + normalised source text + ordinal)."""
import sys, re, collections
def load(cov, root):
    best = {}
    for l in open(cov):
        m = re.match(r'github.com/JunNishimura/Goit/(.*?):(\d+)\.(\d+),(\d+)\.(\d+) (\d+) (\d+)', l)
        if not m or m.group(1).startswith('verif'): continue
        k = (m.group(1),) + tuple(map(int, m.groups()[1:5]))
        best[k] = max(best.get(k, 0), int(m.group(7)))
    src = {}
    out = {}
    seen = collections.Counter()
    for k in sorted(best):
        f, sl, sc, el, ec = k
        if f not in src:
            try: src[f] = open(root + '/' + f).read().split('\n')
            except OSError: src[f] = []
        lines = src[f][sl-1:el]
        if not lines: continue
        lines = lines[:]
        lines[-1] = lines[-1][:ec-1] if sl != el else lines[-1][:ec-1]
        lines[0] = lines[0][sc-1:] if sl != el else src[f][sl-1][sc-1:ec-1]
        text = ' '.join(x.strip() for x in lines).replace('verifvfs.', 'os.')
        text = re.sub(r'\b(ioutil|time)\.', 'os.', text)
        key = (f, text)
        seen[key] += 1
        out[(f, text, seen[key])] = (best[k], sl, el)
    return out
a = load(sys.argv[1], sys.argv[2]); b = load(sys.argv[3], sys.argv[4])
for k in sorted(a, key=lambda k: (k[0], a[k][1])):
    ca, sl, el = a[k]
    cb = b.get(k, (None,))[0]
    if ca == 0 and not cb:
        print(f"{k[0]}:{sl}-{el}\t{'unmatched' if cb is None else 'never'}\t{k[1][:160]}")
