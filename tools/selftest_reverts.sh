#!/usr/bin/env bash
# For every fix commit in /repo: revert it in a scratch worktree (must still build and pass the
# baseline tests), run the quick checks of the properties it was recorded for, expect a VIOLATION.
# usage: selftest_reverts.sh [commit-prefix ...]
set -u
export GOFLAGS=-mod=mod GOPROXY=off GOSUMDB=off GOTOOLCHAIN=local
OUT=/dev/shm/selftest-out; rm -rf $OUT; mkdir -p $OUT
RES=/verif/selftest/reverts.tsv; mkdir -p /verif/selftest; : > $RES.tmp
jq -r '.findings[] | select(.status=="fixed") | "\(.commit) \(.property)"' /verif/known_findings.json | sort -u > $OUT/list
for H in $(cut -d' ' -f1 $OUT/list | sort -u); do
  h=${H:0:7}
  if [ $# -gt 0 ]; then m=0; for a in "$@"; do [[ $H == $a* ]] && m=1; done; [ $m = 1 ] || continue; fi
  wt=/dev/shm/wt-$h; rm -rf $wt; git -C /repo worktree prune
  git -C /repo worktree add -q --detach $wt HEAD || { echo "$h worktree-failed" >> $RES.tmp; continue; }
  if ! (cd $wt && git revert --no-commit $H >/dev/null 2>&1); then
    echo -e "$h\t-\trevert-conflicts\t$(git -C /repo log -1 --format=%s $H | cut -c1-80)" | tee -a $RES.tmp
    git -C /repo worktree remove --force $wt; continue
  fi
  if ! (cd $wt && go build ./... && go build -tags verif ./... && go test -vet=off -count=1 ./... >/dev/null 2>&1); then
    echo -e "$h\t-\treverted-tree-fails-build-or-tests\t$(git -C /repo log -1 --format=%s $H | cut -c1-80)" | tee -a $RES.tmp
    git -C /repo worktree remove --force $wt; continue
  fi
  for p in $(grep "^$H " $OUT/list | cut -d' ' -f2); do
    o=$(VERIF_REPO=$wt VERIF_OUT=$OUT ./check $p quick 2>&1); rc=$?
    sig=$(echo "$o" | grep "failing signature" | head -2 | sed 's/  failing signature //' | tr '\n' ';')
    v=MISSED; [ $rc = 1 ] && echo "$o" | grep -q "^VIOLATION property=$p" && v=CAUGHT
    [ $rc = 2 ] && v=BROKEN
    echo -e "$h\t$p\t$v\t$sig\t$(git -C /repo log -1 --format=%s $H | cut -c6-70)" | tee -a $RES.tmp
  done
  git -C /repo worktree remove --force $wt
done
mv $RES.tmp $RES
rm -rf $OUT
