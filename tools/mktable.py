#!/usr/bin/env python3
"""Regenerates seeded/TABLE.md from seeded/<id>/meta.json, patch.diff and FIRST_ATTEMPT.tsv."""
import json, os, re
os.chdir('/verif/seeded')
first = {}
for l in open('FIRST_ATTEMPT.tsv'):
    if l.startswith('#') or not l.strip(): continue
    p = l.rstrip('\n').split('\t')
    first[p[0]] = (p[1], p[2] if len(p) > 2 else '')
def key(i):
    m = re.match(r'C(\d+)(?:-r(\d+))?', i); return (int(m.group(2) or 1), int(m.group(1)))
rows = ["| seed | files changed | quick check now | first failing signature | first attempt |", "|---|---|---|---|---|"]
n = caught = 0
for i in sorted((d for d in os.listdir('.') if re.match(r'C\d+', d) and os.path.isdir(d)), key=key):
    m = json.load(open(i + '/meta.json'))
    files = sorted(set(re.findall(r'^\+\+\+ b/(\S+)', open(i + '/patch.diff').read(), re.M)))
    runs = m.get('checks_run', [])
    verdict = ', '.join(f"{r['check']}: {r['verdict']}" for r in runs)
    sig = next((r['signatures'].split(';')[0] for r in runs if r.get('signatures')), '')
    fa = first.get(i, ('CAUGHT', ''))
    fat = fa[0] + (' → strengthened: ' + fa[1] if fa[1] else '')
    if m.get('retarget_note'): fat += ' — ' + m['retarget_note']
    rows.append(f"| {i} | {', '.join(files)} | {verdict} | `{sig}` | {fat} |")
    n += 1; caught += all(r['verdict'] == 'CAUGHT' for r in runs) and bool(runs)
rows.append('')
rows.append(f"{caught} of {n} seeded changes are reported by the quick tier of the check(s) named in the third column.")
open('TABLE.md', 'w').write('\n'.join(rows) + '\n')
print(rows[-1])
