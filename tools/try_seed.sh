#!/usr/bin/env bash
# usage: try_seed.sh <Cxx> [tag] [extra property ids to run...]
# Takes the uncommitted change + demo.sh + NOTE.md a sub-agent left in /tmp/seed/<Cxx>[-tag], confirms it
# (compiles, baseline tests pass, demo fails with / passes without the change) in a fresh scratch
# worktree, runs the check(s) against it and stores everything under /verif/seeded/<Cxx>[-tag]/.
set -u
export GOFLAGS=-mod=mod GOPROXY=off GOSUMDB=off GOTOOLCHAIN=local
P=$1; TAG=${2:-}; shift; shift 2>/dev/null || true
ID=$P${TAG:+-$TAG}
SRC=/tmp/seed/$ID
DST=/verif/seeded/$ID; mkdir -p $DST
( cd $SRC && git diff -- . ':!demo.sh' ':!NOTE.md' ':!demo' ) > $DST/patch.diff
[ -s $DST/patch.diff ] || { echo "no change found in $SRC"; exit 2; }
cp $SRC/demo.sh $DST/demo.sh 2>/dev/null; cp $SRC/NOTE.md $DST/NOTE.md 2>/dev/null; [ -d $SRC/demo ] && { rm -rf $DST/demo; cp -r $SRC/demo $DST/demo; }
WT=/dev/shm/sv-$ID; rm -rf $WT; git -C /repo worktree prune
git -C /repo worktree add -q --detach $WT HEAD || exit 2
trap 'git -C /repo worktree remove --force $WT 2>/dev/null; rm -rf /dev/shm/sv-out-$ID' EXIT
cp $DST/demo.sh $WT/ 2>/dev/null; [ -d $DST/demo ] && cp -r $DST/demo $WT/demo
cd $WT
demo_clean=NA; demo_seeded=NA
if [ -f demo.sh ]; then bash demo.sh >/dev/shm/sv-$ID.clean.log 2>&1; demo_clean=$?; fi
git apply $DST/patch.diff || { echo "patch does not apply"; exit 2; }
build=ok; go build ./... >/dev/null 2>&1 && go build -tags verif ./... >/dev/null 2>&1 || build=FAIL
tests=ok; go test -vet=off -count=1 ./... >/dev/null 2>&1 || tests=FAIL
if [ -f demo.sh ]; then bash demo.sh >/dev/shm/sv-$ID.seeded.log 2>&1; demo_seeded=$?; fi
echo "$ID: build=$build tests=$tests demo_clean_exit=$demo_clean demo_seeded_exit=$demo_seeded"
cd /verif
results="[]"
for q in $P "$@"; do
  for tier in quick; do
    s=$(date +%s)
    o=$(VERIF_REPO=$WT VERIF_OUT=/dev/shm/sv-out-$ID ./check $q $tier 2>&1); rc=$?
    e=$(date +%s)
    sig=$(echo "$o" | grep "failing signature" | head -3 | sed 's/  failing signature //' | tr '\n' ';')
    v=MISSED; [ $rc = 1 ] && v=CAUGHT; [ $rc = 2 ] && v=BROKEN
    echo "  check $q $tier: $v ($((e-s))s) $sig"
    results=$(echo "$results" | jq --arg q "$q" --arg t "$tier" --arg v "$v" --arg s "$sig" '. + [{check:$q,tier:$t,verdict:$v,signatures:$s}]')
  done
done
jq -n --arg id "$ID" --arg p "$P" --arg b "$build" --arg t "$tests" --arg dc "$demo_clean" --arg ds "$demo_seeded" --argjson r "$results" \
  --arg needs "$(grep -i -A6 'manifest\|need' $DST/NOTE.md 2>/dev/null | head -12 | tr '\n' ' ' | cut -c1-600)" \
  '{id:$id, breaks_property:$p, origin:"independent sub-agent given only the property text and a scratch worktree", compiles:$b, baseline_tests:$t, demo_exit_unchanged_tree:$dc, demo_exit_with_change:$ds, needs_to_manifest:$needs, checks_run:$r, goit_base:"'$(git -C /repo rev-parse --short HEAD)'"}' > $DST/meta.json
