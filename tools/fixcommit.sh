#!/usr/bin/env bash
# usage: fixcommit.sh "fix: message"   — builds, runs the baseline suite with the guard off, commits /repo
set -eu
export GOFLAGS=-mod=mod GOPROXY=off GOSUMDB=off GOTOOLCHAIN=local
cd /repo
gofmt -l cmd internal verifapi | (! grep .) || { echo "gofmt needed"; exit 1; }
go build ./... && go build -tags verif ./...
go vet ./... >/dev/null 2>&1 || go vet ./... 
out=$(go test -json -vet=off -count=1 ./... 2>&1) || { echo "$out" | grep -E '"Action":"fail"' | head; echo TESTS FAILED; exit 1; }
n=$(echo "$out" | grep -c '"Action":"pass","Package":"[^"]*","Test"' || true)
echo "tests passing: $n"
[ "$n" -ge 147 ] || { echo "fewer than 147 passing"; exit 1; }
git add -A && git commit -qm "$1" && git log --oneline | head -1
