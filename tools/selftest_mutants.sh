#!/usr/bin/env bash
# Applies each hand-written mutant to a scratch worktree, requires build + baseline tests to pass,
# runs the quick check of the property named in the mutant id, expects VIOLATION.
set -u
export GOFLAGS=-mod=mod GOPROXY=off GOSUMDB=off GOTOOLCHAIN=local
OUT=/dev/shm/mut-out; rm -rf $OUT; mkdir -p $OUT
RES=/verif/selftest/mutants.tsv; : > $RES.tmp
for m in $(python3 /verif/selftest/mutants/mutants.py list); do
  if [ $# -gt 0 ]; then k=0; for a in "$@"; do [[ $m == $a* ]] && k=1; done; [ $k = 1 ] || continue; fi
  p=$(echo $m | cut -d- -f2)
  wt=/dev/shm/mut-$m; rm -rf $wt; git -C /repo worktree prune
  git -C /repo worktree add -q --detach $wt HEAD || continue
  python3 /verif/selftest/mutants/mutants.py $wt $m || { echo -e "$m\t$p\tPATTERN-NOT-FOUND" | tee -a $RES.tmp; git -C /repo worktree remove --force $wt; continue; }
  (cd $wt && gofmt -w cmd internal >/dev/null 2>&1)
  if ! (cd $wt && go build ./... 2>$OUT/build.err && go build -tags verif ./...); then echo -e "$m\t$p\tBUILD-FAILS\t$(head -2 $OUT/build.err | tr '\n' ' ')" | tee -a $RES.tmp; git -C /repo worktree remove --force $wt; continue; fi
  if ! (cd $wt && go test -vet=off -count=1 ./... >/dev/null 2>&1); then echo -e "$m\t$p\tBASELINE-TESTS-FAIL" | tee -a $RES.tmp; git -C /repo worktree remove --force $wt; continue; fi
  (cd $wt && git diff) > /verif/selftest/mutants/$m.diff
  o=$(cd /verif && VERIF_REPO=$wt VERIF_OUT=$OUT ./check $p quick 2>&1); rc=$?
  sig=$(echo "$o" | grep "failing signature" | head -2 | sed 's/  failing signature //' | tr '\n' ';')
  v=MISSED; [ $rc = 1 ] && v=CAUGHT; [ $rc = 2 ] && v=BROKEN
  echo -e "$m\t$p\t$v\t$sig" | tee -a $RES.tmp
  git -C /repo worktree remove --force $wt
done
mv $RES.tmp $RES; rm -rf $OUT
