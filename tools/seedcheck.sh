#!/usr/bin/env bash
# usage: seedcheck.sh <seed-id> [props...]  — apply seeded/<id>/patch.diff to a scratch worktree, run quick checks, print verdicts (no meta update)
set -u
export GOFLAGS=-mod=mod GOPROXY=off GOSUMDB=off GOTOOLCHAIN=local
id=$1; shift; P=${id%%-*}; props=${*:-$P}
WT=/dev/shm/sc-$id; rm -rf $WT; git -C /repo worktree prune
git -C /repo worktree add -q --detach $WT HEAD || exit 2
git -C $WT apply /verif/seeded/$id/patch.diff || { echo "patch does not apply"; git -C /repo worktree remove --force $WT; exit 2; }
for q in $props; do
  o=$(cd /verif && VERIF_REPO=$WT VERIF_OUT=/dev/shm/sc-out-$id VERIF_SEED=${VERIF_SEED:-1} ./check $q ${TIER:-quick} 2>&1); rc=$?
  v=MISSED; [ $rc = 1 ] && v=CAUGHT; [ $rc = 2 ] && v=BROKEN
  echo "$id $q: $v $(echo "$o" | grep 'failing signature' | head -3 | sed 's/  failing signature //' | tr '\n' ';' | cut -c1-300)"
  [ $rc = 2 ] && echo "$o" | tail -5
done
git -C /repo worktree remove --force $WT; rm -rf /dev/shm/sc-out-$id
