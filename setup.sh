#!/usr/bin/env bash
# setup_cmd: offline build of the framework (warms the Go build cache; checks rebuild what they need themselves)
set -eu
VERIF="$(cd "$(dirname "${BASH_SOURCE[0]}")" && pwd)"
export GOFLAGS=-mod=mod GOPROXY=off GOSUMDB=off GOTOOLCHAIN=local CGO_ENABLED=0
mkdir -p "$VERIF/bin" "$VERIF/evidence" "$VERIF/replay"
( cd "$VERIF/harness" && go build -o "$VERIF/bin/goitmon" ./cmd/goitmon && go vet ./... )
( cd /repo && go build -tags verif -o /dev/null . )
echo "setup ok"
