package mon

import (
	"bytes"
	"encoding/json"
	"fmt"
	"os"
	"path/filepath"
	"sort"
	"strconv"
	"strings"

	"verif/harness/core"
	"verif/harness/gen"
	"verif/harness/gitfmt"
	"verif/harness/sandbox"
)

// A scenario is a pre-state (built by ordinary monitored-less commands) plus one modifying command.
type scenario struct {
	Name  string
	Setup func(k *Walker)
	Cmd   func(k *Walker) []string
}

// scenarioFollow (C15): a command issued after the interrupted one by a later process that carries the SAME process id
// (ids are reused) and writes the same file with shorter content.
var scenarioFollow = map[string][]string{
	"switch-long-then-short-same-pid": {"switch", "main"},
	"config-long-then-short-same-pid": {"config", "user.name", "N"},
	"rm-after-add-many-same-pid":      {"rm", "dir", "a.txt", "dir.c"},
	"branch-hash-then-reset-same-pid": {"reset", "--soft", "HEAD@{1}"},
	// "@HEAD@" stands for the commit HEAD resolved to before the interrupted command
	"branch-create-then-update-same-pid": {"update-ref", "refs/heads/feat", "@HEAD@"},
	"switch-create-then-update-same-pid": {"update-ref", "refs/heads/feat", "@HEAD@"},
	"first-commit-then-update-same-pid":  {"update-ref", "refs/heads/main", "@NEW@"},
}

func commitBase(k *Walker) {
	w := k.W
	w.Write("a.txt", []byte("a1\n"))
	w.Write("dir/b.txt", []byte("b1\n"))
	w.Write("dir/sub/c.txt", []byte("c1\n"))
	w.Write("dir.c", []byte("sib\n"))
	w.Goit("add", "a.txt", "dir", "dir.c")
	w.Goit("commit", "-m", "base")
}

func twoCommits(k *Walker) {
	commitBase(k)
	k.W.Write("a.txt", []byte("a2\n"))
	k.W.Write("new.txt", []byte("n\n"))
	k.W.Goit("add", "a.txt", "new.txt")
	k.W.Goit("commit", "-m", "second")
}

func fixed(args ...string) func(k *Walker) []string {
	return func(k *Walker) []string { return args }
}

func scenarioCorpus() []scenario {
	return []scenario{
		{"init", func(k *Walker) {}, fixed("init")},
		{"config-local-first", func(k *Walker) { k.W.Goit("init") }, fixed("config", "user.name", "N N")},
		{"config-local-second", func(k *Walker) { k.Init() }, fixed("config", "core.editor", "vi")},
		{"config-global", func(k *Walker) { k.Init() }, fixed("config", "--global", "user.email", "g@example.org")},
		{"add-new-first", func(k *Walker) { k.Init(); k.W.Write("a.txt", []byte("a\n")) }, fixed("add", "a.txt")},
		{"add-new-dir", func(k *Walker) {
			k.Init()
			commitBase(k)
			k.W.Write("d2/x", []byte("x\n"))
			k.W.Write("d2/y", []byte("y\n"))
		}, fixed("add", "d2")},
		{"add-dir-large-first-file", func(k *Walker) {
			k.Init()
			commitBase(k)
			k.W.EditRand("d3/a-large.bin", "c16-large", 2<<20)
			k.W.Write("d3/b.txt", []byte("b\n"))
			k.W.Write("d3/c.txt", []byte("c\n"))
		}, fixed("add", "d3")},
		{"add-modified", func(k *Walker) { k.Init(); commitBase(k); k.W.Write("a.txt", []byte("changed\n")) }, fixed("add", "a.txt")},
		{"add-deleted", func(k *Walker) { k.Init(); commitBase(k); k.W.Edit("rm", "a.txt", nil) }, fixed("add", "a.txt")},
		{"add-dot", func(k *Walker) {
			k.Init()
			commitBase(k)
			k.W.Write("z.txt", []byte("z\n"))
			k.W.Write("dir/b.txt", []byte("b2\n"))
		}, fixed("add", ".")},
		{"add-dot-with-ignore", func(k *Walker) {
			k.Init()
			commitBase(k)
			k.W.Write(".goitignore", []byte("build/\n*.log\n"))
			k.W.Write("build/o", []byte("o\n"))
			k.W.Write("x.log", []byte("l\n"))
			k.W.Write("keep", []byte("k\n"))
		}, fixed("add", ".")},
		{"add-blob-sharing-object-directory", func(k *Walker) {
			// a new blob whose id starts with the same two hex digits as a blob HEAD refers to
			k.Init()
			commitBase(k)
			want := gitfmt.BlobID([]byte("a1\n"))[:2]
			for i := 0; i < 100000; i++ {
				b := []byte(fmt.Sprintf("collide %d\n", i))
				if gitfmt.BlobID(b)[:2] == want {
					k.W.Write("collide.txt", b)
					break
				}
			}
		}, fixed("add", "collide.txt")},
		{"rm-file", func(k *Walker) { k.Init(); commitBase(k) }, fixed("rm", "a.txt")},
		{"rm-dir", func(k *Walker) { k.Init(); commitBase(k) }, fixed("rm", "dir")},
		{"commit-first", func(k *Walker) {
			k.Init()
			k.W.Write("a.txt", []byte("a\n"))
			k.W.Write("d/b", []byte("b\n"))
			k.W.Goit("add", "a.txt", "d")
		}, fixed("commit", "-m", "first")},
		{"commit-second-unchanged-subtree", func(k *Walker) {
			k.Init()
			commitBase(k)
			k.W.Write("a.txt", []byte("a2\n"))
			k.W.Goit("add", "a.txt")
		}, fixed("commit", "-m", "second")},
		{"commit-on-other-branch", func(k *Walker) {
			k.Init()
			commitBase(k)
			k.W.Goit("switch", "-c", "dev")
			k.W.Write("dir/b.txt", []byte("b2\n"))
			k.W.Goit("add", "dir/b.txt")
		}, fixed("commit", "-m", "on dev")},
		{"commit-on-branch-with-250-byte-name", func(k *Walker) {
			// a branch name close to the file-name limit (the temporary file's name is longer still);
			// if the branch cannot be created the scenario degrades to a commit on main
			k.Init()
			commitBase(k)
			k.W.Goit("switch", "-c", strings.Repeat("n", 250))
			k.W.Write("a.txt", []byte("a-long\n"))
			k.W.Goit("add", "a.txt")
		}, fixed("commit", "-m", "on a long branch")},
		{"reset-on-branch-with-240-byte-name", func(k *Walker) {
			k.Init()
			twoCommits(k)
			k.W.Goit("switch", "-c", strings.Repeat("m", 240))
		}, fixed("reset", "--soft", "HEAD@{1}")},
		{"commit-emptied", func(k *Walker) {
			k.Init()
			commitBase(k)
			k.W.Goit("rm", "a.txt", "dir", "dir.c")
		}, fixed("commit", "-m", "emptied")},
		{"branch-create", func(k *Walker) { k.Init(); commitBase(k) }, fixed("branch", "topic")},
		{"branch-rename", func(k *Walker) { k.Init(); commitBase(k); k.W.Goit("branch", "other") }, fixed("branch", "-r", "trunk")},
		{"branch-rename-case-only", func(k *Walker) { k.Init(); commitBase(k); k.W.Goit("branch", "other") }, fixed("branch", "-r", "Main")},
		{"branch-rename-sorts-elsewhere", func(k *Walker) {
			k.Init()
			commitBase(k)
			k.W.Goit("branch", "dev")
			k.W.Goit("branch", "zeta")
		}, fixed("branch", "-r", "alpha")},
		{"branch-delete", func(k *Walker) { k.Init(); commitBase(k); k.W.Goit("branch", "old") }, fixed("branch", "-d", "old")},
		{"switch", func(k *Walker) { k.Init(); commitBase(k); k.W.Goit("branch", "dev") }, fixed("switch", "dev")},
		{"switch-c", func(k *Walker) { k.Init(); commitBase(k) }, fixed("switch", "-c", "feat")},
		{"reset-soft", func(k *Walker) { k.Init(); twoCommits(k) }, fixed("reset", "--soft", "HEAD@{1}")},
		{"reset-mixed", func(k *Walker) { k.Init(); twoCommits(k) }, fixed("reset", "--mixed", "HEAD@{1}")},
		{"reset-hard", func(k *Walker) {
			k.Init()
			twoCommits(k)
			k.W.Edit("rmdir", "dir", nil)
			k.W.Write("a.txt", []byte("dirty\n"))
		}, fixed("reset", "--hard", "HEAD@{1}")},
		{"reset-hard-to-empty-files", func(k *Walker) {
			// the snapshot reset to tracks EMPTY files where the working tree holds content (an absorbed read failure
			// yields "no bytes", which looks like exactly that content)
			k.Init()
			k.W.Write("e.txt", []byte{})
			k.W.Write("dir/e2.txt", []byte{})
			commitBase(k)
			k.W.Goit("add", "e.txt", "dir/e2.txt")
			k.W.Goit("commit", "-m", "with empty files")
			k.W.Write("e.txt", []byte("filled in the second commit\n"))
			k.W.Write("dir/e2.txt", []byte("also\n"))
			k.W.Goit("add", "e.txt", "dir/e2.txt")
			k.W.Goit("commit", "-m", "filled")
			k.W.Write("e.txt", []byte("local junk that reset --hard must discard\n"))
		}, fixed("reset", "--hard", "HEAD@{1}")},
		{"restore-empty-file", func(k *Walker) {
			k.Init()
			k.W.Write("e.txt", []byte{})
			commitBase(k)
			k.W.Goit("add", "e.txt")
			k.W.Goit("commit", "-m", "with an empty file")
			k.W.Write("e.txt", []byte("local junk\n"))
		}, fixed("restore", "e.txt")},
		{"restore-file", func(k *Walker) { k.Init(); commitBase(k); k.W.Write("a.txt", []byte("dirty\n")) }, fixed("restore", "a.txt")},
		{"restore-deleted-dir", func(k *Walker) { k.Init(); commitBase(k); k.W.Edit("rmdir", "dir", nil) }, fixed("restore", "dir")},
		{"restore-staged", func(k *Walker) {
			k.Init()
			commitBase(k)
			k.W.Write("a.txt", []byte("a2\n"))
			k.W.Write("n.txt", []byte("n\n"))
			k.W.Goit("add", "a.txt", "n.txt")
		}, fixed("restore", "--staged", "a.txt", "n.txt")},
		{"switch-long-then-short-same-pid", func(k *Walker) {
			k.Init()
			commitBase(k)
			k.W.Goit("branch", "a-much-longer-branch-name-than-main")
		}, fixed("switch", "a-much-longer-branch-name-than-main")},
		{"config-long-then-short-same-pid", func(k *Walker) { k.Init() }, fixed("config", "user.name", "A Rather Long Name "+strings.Repeat("x", 150))},
		{"rm-after-add-many-same-pid", func(k *Walker) {
			k.Init()
			commitBase(k)
			for i := 0; i < 12; i++ {
				k.W.Write(fmt.Sprintf("more/file-number-%02d.txt", i), []byte("m\n"))
			}
		}, fixed("add", "more")},
		{"branch-hash-then-reset-same-pid", func(k *Walker) { k.Init(); twoCommits(k) }, fixed("reset", "--soft", "HEAD@{1}")},
		{"commit-identical-to-a-stored-one", func(k *Walker) {
			// the commit about to be made already exists, byte for byte (same snapshot, parent, identity, message and
			// second), and another branch names it: whatever goes wrong, that object is not this command's to remove
			k.W.GoitBin = k.W.C.GoitVFS
			k.W.Env = map[string]string{"VERIF_NOW": "1700000000"}
			k.Init()
			commitBase(k)
			k.W.Write("a.txt", []byte("a2\n"))
			k.W.Goit("add", "a.txt")
			k.W.Goit("commit", "-m", "second")
			k.W.Goit("branch", "keep")
			k.W.Goit("reset", "--soft", "HEAD@{1}")
			k.W.Env = nil
		}, fixed("commit", "-m", "second")},
		{"commit-with-read-only-files", func(k *Walker) {
			// Goit's own files without write permission (a repository restored from a read-only medium): replacing them
			// still has to be one step
			k.Init()
			twoCommits(k)
			k.W.Write("a.txt", []byte("a3\n"))
			k.W.Goit("add", "a.txt")
			for _, f := range []string{".goit/refs/heads/main", ".goit/HEAD", ".goit/index", ".goit/config", ".goit/logs/HEAD"} {
				k.W.Chmod(f, 0o444)
			}
		}, fixed("commit", "-m", "third")},
		{"switch-with-read-only-files", func(k *Walker) {
			k.Init()
			twoCommits(k)
			k.W.Goit("branch", "side")
			for _, f := range []string{".goit/refs/heads/main", ".goit/HEAD", ".goit/index", ".goit/refs/heads/side"} {
				k.W.Chmod(f, 0o444)
			}
		}, fixed("switch", "side")},
		{"branch-create-then-update-same-pid", func(k *Walker) { k.Init(); twoCommits(k) }, fixed("branch", "feat")},
		{"switch-create-then-update-same-pid", func(k *Walker) { k.Init(); twoCommits(k) }, fixed("switch", "-c", "feat")},
		{"first-commit-then-update-same-pid", func(k *Walker) { k.Init(); k.W.Write("a.txt", []byte("a\n")); k.W.Goit("add", "a.txt") }, fixed("commit", "-m", "first")},
		{"config-global-shrinks", func(k *Walker) {
			k.Init()
			k.W.Goit("config", "--global", "user.name", "Alice Margaret Wonderland-Liddell")
			k.W.Goit("config", "--global", "core.editor", "an editor with a rather long command line --wait")
		}, fixed("config", "--global", "user.name", "Al")},
		{"config-local-shrinks", func(k *Walker) {
			k.Init()
			k.W.Goit("config", "user.name", "Alice Margaret Wonderland-Liddell")
		}, fixed("config", "user.name", "Al")},
		{"switch-to-shorter-name", func(k *Walker) {
			k.Init()
			commitBase(k)
			k.W.Goit("switch", "-c", "a-much-longer-branch-name-than-main")
		}, fixed("switch", "main")},
		{"rm-shrinks-index", func(k *Walker) {
			k.Init()
			commitBase(k)
		}, fixed("rm", "dir", "dir.c")},
		{"update-ref", func(k *Walker) {
			k.Init()
			twoCommits(k)
			k.W.Goit("branch", "side")
		}, func(k *Walker) []string {
			// move "side" back to the first commit
			r := k.W.State().Repo()
			c, _ := r.Commit(r.HeadCommit())
			id := r.HeadCommit()
			if c != nil && len(c.Parents) > 0 {
				id = c.Parents[0]
			}
			return []string{"update-ref", "refs/heads/side", id}
		}},
	}
}

// readOnlyScenarios (C16 only): a read that fails must end in a non-zero exit or in exactly the fault-free
// output; a report computed from a file that could not be read is "success after a failure it depends on".
func readOnlyScenarios() []scenario {
	dirty := func(k *Walker) {
		k.Init()
		twoCommits(k)
		k.W.Write(".goitignore", []byte("*.log\n"))
		k.W.Write("a.txt", []byte("dirty\n"))
		k.W.Write("untracked.txt", []byte("u\n"))
		k.W.Write("x.log", []byte("l\n"))
		k.W.Write("staged.txt", []byte("s\n"))
		k.W.Edit("rm", "dir.c", nil)
		k.W.Goit("add", "staged.txt")
		k.W.Goit("branch", "side")
	}
	headID := func(k *Walker) string { return k.W.State().Repo().HeadCommit() }
	return []scenario{
		{"config-local-is-a-symlink", func(k *Walker) {
			k.Init()
			b := k.W.State().GoitFiles()["config"]
			k.W.Edit("rm", ".goit/config", nil)
			k.W.Write("../home/dotfiles/goit-local", b)
			k.W.Symlink(".goit/config", "../../home/dotfiles/goit-local")
		}, fixed("config", "user.name", "Through A Link")},
		{"config-global-is-a-symlink", func(k *Walker) {
			k.Init()
			k.W.Write("../home/dotfiles/goit-global", []byte("[user]\n\tname = G\n"))
			k.W.Symlink("../home/.goitconfig", "dotfiles/goit-global")
		}, fixed("config", "--global", "user.email", "g@example.org")},
		{"ro-status", dirty, fixed("status")},
		{"ro-status-fresh", func(k *Walker) { k.Init(); k.W.Write("a.txt", []byte("a\n")); k.W.Goit("add", "a.txt") }, fixed("status")},
		{"ro-log", dirty, fixed("log")},
		{"ro-log-n", dirty, fixed("log", "-n", "1")},
		{"ro-reflog", dirty, fixed("reflog")},
		{"ro-ls-files", dirty, fixed("ls-files")},
		{"ro-ls-files-s", dirty, fixed("ls-files", "-s")},
		{"ro-branch-list", dirty, fixed("branch", "--list")},
		{"ro-rev-parse", dirty, fixed("rev-parse", "HEAD")},
		{"ro-rev-parse-branch", dirty, fixed("rev-parse", "side")},
		{"ro-cat-file-commit", dirty, func(k *Walker) []string { return []string{"cat-file", "-p", headID(k)} }},
		{"ro-cat-file-type", dirty, func(k *Walker) []string { return []string{"cat-file", "-t", headID(k)} }},
		{"ro-cat-file-tree", dirty, func(k *Walker) []string {
			r := k.W.State().Repo()
			if cm, err := r.Commit(r.HeadCommit()); err == nil {
				return []string{"cat-file", "-p", cm.Tree}
			}
			return []string{"cat-file", "-p", headID(k)}
		}},
		{"ro-hash-object", dirty, fixed("hash-object", "a.txt", "untracked.txt")},
		{"write-tree", dirty, fixed("write-tree")},
	}
}

var readOnlyActions = []string{"status", "log", "reflog", "ls-files", "rev-parse", "cat-file", "hash-object", "write-tree", "branch-list"}

var modifyingActions = []string{"add", "add", "add-all", "rm", "commit", "commit-all", "branch-create", "branch-rename", "branch-delete", "switch", "switch-c", "reset", "restore", "restore-staged", "update-ref", "config"}

type opLine struct {
	N, M, W int
	Op      string
	Path    string
}

func parseOplog(b []byte) []opLine {
	var out []opLine
	for _, ln := range strings.Split(string(b), "\n") {
		f := strings.SplitN(ln, " ", 5)
		if len(f) < 5 {
			continue
		}
		n, e1 := strconv.Atoi(f[0])
		m, e2 := strconv.Atoi(f[1])
		w, e3 := strconv.Atoi(f[2])
		if e1 != nil || e2 != nil || e3 != nil {
			continue
		}
		out = append(out, opLine{n, m, w, f[3], f[4]})
	}
	return out
}

func pathClass(p string) string {
	i := strings.Index(p, "/.goit/")
	if i < 0 {
		if strings.HasSuffix(p, "/.goit") {
			return ".goit"
		}
		if strings.Contains(p, ".goitconfig") {
			return "global-config"
		}
		return "worktree"
	}
	r := p[i+len("/.goit/"):]
	switch {
	case strings.HasPrefix(r, "objects/"):
		return "object"
	case strings.HasPrefix(r, "refs/heads"):
		return "branch"
	case strings.HasPrefix(r, "logs/"):
		return "log"
	case r == "HEAD" || r == "index" || r == "config":
		return r
	}
	if j := strings.Index(r, "/"); j > 0 {
		return r[:j]
	}
	if strings.Contains(r, "tmp") || strings.Contains(r, "lock") {
		return "tempfile"
	}
	return "other"
}

type faultCase struct {
	Scenario string   `json:"scenario"`
	Argv     []string `json:"argv"`
	Fault    string   `json:"fault"`
	Op       string   `json:"op"`
	Hist     int      `json:"hist"`
	Rand     bool     `json:"random_history"`
}

var readOnlyCmds = [][]string{{"ls-files"}, {"rev-parse", "HEAD"}, {"log", "-n", "3"}, {"status"}, {"branch", "--list"}, {"reflog"}}

// runFaults drives C15 (crash) or C16 (error / partial write) for one prepared world.
func runFaults(c *core.Ctx, w *core.World, name string, argv []string, randomHist bool, only string) {
	prop := c.Prop
	spre := w.State()
	oplogPath := filepath.Join(w.SB.Root, "oplog")
	now := "1700000000"
	runVFS := func(fault string) *sandbox.Result {
		os.Remove(oplogPath)
		env := map[string]string{"VERIF_OPLOG": oplogPath, "VERIF_NOW": now, "VERIF_PID": "4242"}
		if fault != "" {
			env["VERIF_FAULT"] = fault
		}
		return w.SB.Run(c.GoitVFS, argv, sandbox.RunOpts{ExtraEnv: env})
	}
	// reference run
	ref := runVFS("")
	c.Eval(1)
	spost := w.SB.Snapshot()
	logb, _ := os.ReadFile(oplogPath)
	ops := parseOplog(logb)
	if len(ops) == 0 {
		c.Note(fmt.Sprintf("scenario %s: command %v performed no file-system operation (exit %d)", name, argv, ref.Exit))
		return
	}
	last := ops[len(ops)-1]
	N, M, W := last.M, last.N, last.W
	if cr, _ := ref.Crashed(); cr || ref.Exit != 0 {
		// the fault-free command itself fails: not a scenario (other properties judge that)
		c.Count(prop + ".scenario-refused")
		if !randomHist {
			// a hand-picked scenario is valid by construction: if its fault-free run fails, this check cannot judge it
			c.Broken(fmt.Sprintf("scenario %s: the fault-free run of %v fails (exit %d): the command is broken before any fault is injected", name, argv, ref.Exit))
			c.Note(fmt.Sprintf("scenario %s: fault-free %v exits %d: %s", name, argv, ref.Exit, clipS(firstLine(string(ref.Stdout)+string(ref.Stderr)), 120)))
		}
		return
	}
	c.Count(prop + ".scenarios")
	c.CountN(prop+".mutating-ops", int64(N))
	c.CountN(prop+".all-ops", int64(M))
	if w.Hist < 3 {
		var lines []string
		for _, o := range ops {
			lines = append(lines, fmt.Sprintf("%d %s %s", o.N, o.Op, pathClass(o.Path)))
		}
		c.Sample(map[string]any{"scenario": name, "argv": argv, "mutating_ops": N, "all_ops": M, "oplog": firstN(lines, 40)})
	}
	// which read-only commands work on both reference states
	type ro struct {
		argv []string
		ok   bool
	}
	var ros []ro
	check := func(sn *sandbox.Snap, a []string) bool {
		w.SB.Restore(sn)
		r := w.SB.Run(c.Goit, a, sandbox.RunOpts{})
		cr, _ := r.Crashed()
		return r.Exit == 0 && !cr
	}
	for _, a := range readOnlyCmds {
		ros = append(ros, ro{a, check(spre, a) && check(spost, a)})
	}
	cmdKind := argv[0]
	preR, postR := spre.Repo(), spost.Repo()
	fail := func(fc faultCase, oracle, symptom, trigger, format string, a ...any) {
		f := core.Failure{Prop: prop, Oracle: oracle, Symptom: symptom, Trigger: trigger, Detail: fmt.Sprintf(format, a...), Hist: w.Hist}
		if c.Fail(f) {
			b, _ := json.Marshal(fc)
			c.WriteWitness(&core.Witness{Kind: "custom", Hist: w.Hist, Failures: []core.Failure{f}, Custom: b, Steps: w.Steps})
		}
	}
	opAt := func(sel func(o opLine) int, k int) opLine {
		for _, o := range ops {
			if sel(o) == k && (len(ops) == 1 || true) {
				// first line reaching index k in that counter
				return o
			}
		}
		return opLine{}
	}
	if prop == "C15" {
		// "still usable" also means that LATER work goes through: a new file, staged and committed. Whether that is
		// possible at all in this scenario (an identity may be missing) is learnt from the states before and after the
		// complete command
		next := func() (bool, string) {
			os.WriteFile(filepath.Join(w.SB.W(), "zz next after the interruption.txt"), []byte("next "+name+"\n"), 0o666)
			a := w.SB.Run(c.Goit, []string{"add", "zz next after the interruption.txt"}, sandbox.RunOpts{})
			m := w.SB.Run(c.Goit, []string{"commit", "-m", "next after the interruption"}, sandbox.RunOpts{})
			c.Eval(2)
			return a.Exit == 0 && m.Exit == 0, fmt.Sprintf("add exits %d, commit exits %d: %s", a.Exit, m.Exit, clipS(firstLine(string(m.Stdout)+string(m.Stderr)+string(a.Stderr)), 160))
		}
		w.SB.Restore(spre)
		okPre, _ := next()
		w.SB.Restore(spost)
		okPost, _ := next()
		nextOK := okPre && okPost && !randomHist
		for k := 1; k <= N; k++ {
			if N > 160 && k > 50 && k <= N-50 && (k-50)%((N-100)/60+1) != 0 {
				// a command with hundreds of modifications (a large object streamed in chunks): the first and last 50
				// positions and about 60 evenly spaced ones in between
				c.Count("C15.crash-points-sampled-out")
				continue
			}
			var o opLine
			for _, x := range ops {
				if x.M == k {
					o = x
					break
				}
			}
			fault := fmt.Sprintf("c:%d", k)
			if only != "" && only != fault {
				continue
			}
			fc := faultCase{name, argv, fault, o.Op + " " + pathClass(o.Path), w.Hist, randomHist}
			w.SB.Restore(spre)
			res := runVFS(fault)
			c.Eval(1)
			c.Count("C15.crash-points")
			if res.Signal != "killed" {
				c.Inconclusive(fmt.Sprintf("%s %v with %s did not die by SIGKILL (exit %d, signal %q)", name, argv, fault, res.Exit, res.Signal))
				continue
			}
			sk := w.SB.Snapshot()
			kr := sk.Repo()
			trig := fmt.Sprintf("%s|before-%s:%s", cmdKind, o.Op, pathClass(o.Path))
			c.Class(trig)
			where := fmt.Sprintf("%v killed before mutating operation %d/%d (%s %s)", argv, k, N, o.Op, pathClass(o.Path))
			// (1) everything reachable is intact, the index decodes
			c.Oracle("C15.reachable-intact")
			if cmdKind != "init" || kr.HeadPresent {
				for _, p := range kr.Fsck(true) {
					oracle := "C15.reachable-intact"
					switch {
					case strings.HasPrefix(p.Msg, "index does not decode"):
						oracle = "C15.index-decodes"
					case p.Oracle == "head-shape" || p.Oracle == "head-branch-exists":
						oracle = "C15.head-value"
					case p.Oracle == "branch-target-commit" || p.Oracle == "refs-shape":
						oracle = "C15.branch-value"
					}
					if cmdKind == "init" && p.Oracle == "head-shape" && !kr.HeadPresent {
						continue
					}
					fail(fc, oracle, p.Oracle, trig, "%s: %s", where, p.Msg)
				}
			}
			for id, oi := range preR.Objects {
				if oi.Err != nil {
					continue
				}
				if oj, ok := kr.Objects[id]; !ok || oj.Err != nil || !bytes.Equal(oj.Obj.Body, oi.Obj.Body) {
					fail(fc, "C15.reachable-intact", "stored-object-lost", trig, "%s: object %s (%s), stored before the command, is gone or damaged", where, id, oi.Obj.Kind)
					break
				}
			}
			// (2) every branch names its old or its new commit, HEAD its old or new text
			c.Oracle("C15.branch-value")
			names := map[string]bool{}
			for b := range preR.Branches {
				names[b] = true
			}
			for b := range postR.Branches {
				names[b] = true
			}
			for b := range kr.Branches {
				names[b] = true
			}
			for b := range names {
				v := kr.Branches[b]
				if v != preR.Branches[b] && v != postR.Branches[b] {
					fail(fc, "C15.branch-value", "branch-neither-old-nor-new", trig, "%s: branch %q holds %q; before: %q, after the complete command: %q", where, b, v, preR.Branches[b], postR.Branches[b])
				}
			}
			c.Oracle("C15.head-value")
			if kr.HeadRaw != preR.HeadRaw && kr.HeadRaw != postR.HeadRaw {
				fail(fc, "C15.head-value", "head-neither-old-nor-new", trig, "%s: HEAD holds %q; before %q, after %q", where, kr.HeadRaw, preR.HeadRaw, postR.HeadRaw)
			}
			// (3) read-only commands still load the repository
			c.Oracle("C15.readonly-loads")
			for _, r := range ros {
				res := w.SB.Run(c.Goit, r.argv, sandbox.RunOpts{})
				c.Eval(1)
				cr, _ := res.Crashed()
				if cr {
					fail(fc, "C15.readonly-loads", "readonly-crashes", trig+"|"+r.argv[0], "%s: afterwards `goit %s` crashes: %s", where, strings.Join(r.argv, " "), clipS(firstLine(string(res.Stderr)+string(res.Stdout)), 160))
				} else if r.ok && res.Exit != 0 {
					fail(fc, "C15.readonly-loads", "readonly-fails", trig+"|"+r.argv[0], "%s: afterwards `goit %s` exits %d (it works before and after the complete command): %s", where, strings.Join(r.argv, " "), res.Exit, clipS(firstLine(string(res.Stdout)+string(res.Stderr)), 160))
				}
			}
			// (5) process ids are reused: what a later command does must not depend on whether its process carries the id of
			// the one that was killed (whose temporary files may still lie around) or a fresh one
			if follow := resolveFollow(scenarioFollow[name], preR.HeadCommit(), postR.HeadCommit()); follow != nil && !randomHist {
				c.Oracle("C15.followup-pid-independent")
				runF := func(pid string) *sandbox.Result {
					return w.SB.Run(c.GoitVFS, follow, sandbox.RunOpts{ExtraEnv: map[string]string{"VERIF_NOW": now, "VERIF_PID": pid}})
				}
				fr := runF("4242")
				got := w.SB.Snapshot()
				w.SB.Restore(sk)
				rr := runF("777")
				ref := w.SB.Snapshot()
				c.Eval(2)
				if cr, how := fr.Crashed(); cr {
					fail(fc, "C15.followup-pid-independent", "followup-crashes", trig, "%s: afterwards `goit %s` run by a process with the same id crashes (%s)", where, strings.Join(follow, " "), how)
				} else if d := decodedDiff(ref, got); d != "" || fr.Exit != rr.Exit {
					fail(fc, "C15.followup-pid-independent", "followup-depends-on-pid", trig, "%s: afterwards `goit %s` gives another repository when its process has the id of the killed one (exit %d) than with a fresh id (exit %d): %s", where, strings.Join(follow, " "), fr.Exit, rr.Exit, clipS(d, 200))
				}
				for _, p := range got.Repo().Fsck(false) {
					if fr.Exit == 0 {
						fail(fc, "C15.followup-pid-independent", "followup-"+p.Oracle, trig, "%s: afterwards `goit %s` (same process id) exits 0 and leaves: %s", where, strings.Join(follow, " "), p.Msg)
					}
				}
				// (5b) the later process may be killed too, at every one of ITS modifications, carrying the id of the first
				// victim: branches and HEAD hold what they held or what the complete follow-up gives, and reading still works
				skR, gotR := sk.Repo(), got.Repo()
				for k2 := 1; k2 <= 40 && fr.Exit == 0; k2++ {
					w.SB.Restore(sk)
					r2 := w.SB.Run(c.GoitVFS, follow, sandbox.RunOpts{ExtraEnv: map[string]string{"VERIF_NOW": now, "VERIF_PID": "4242", "VERIF_FAULT": fmt.Sprintf("c:%d", k2)}})
					c.Eval(1)
					if r2.Signal != "killed" {
						break
					}
					c.Oracle("C15.second-kill-same-pid")
					c.Class(fmt.Sprintf("C15.second-kill|%s|k%d", name, min(k2, 6)))
					k2r := w.SB.Snapshot().Repo()
					where2 := fmt.Sprintf("%s; then `goit %s` by a process with the same id, killed before its modification %d", where, strings.Join(follow, " "), k2)
					for b := range unionKeys(skR.Branches, gotR.Branches, k2r.Branches) {
						if v := k2r.Branches[b]; v != skR.Branches[b] && v != gotR.Branches[b] {
							fail(fc, "C15.second-kill-same-pid", "branch-neither-old-nor-new", trig, "%s: branch %q holds %q; before: %q, after the complete follow-up: %q", where2, b, v, skR.Branches[b], gotR.Branches[b])
						}
					}
					if k2r.HeadRaw != skR.HeadRaw && k2r.HeadRaw != gotR.HeadRaw {
						fail(fc, "C15.second-kill-same-pid", "head-neither-old-nor-new", trig, "%s: HEAD holds %q", where2, k2r.HeadRaw)
					}
					for _, r := range ros {
						if res := w.SB.Run(c.Goit, r.argv, sandbox.RunOpts{}); r.ok && res.Exit != 0 {
							fail(fc, "C15.second-kill-same-pid", "readonly-fails", trig+"|"+r.argv[0], "%s: afterwards `goit %s` exits %d: %s", where2, strings.Join(r.argv, " "), res.Exit, clipS(firstLine(string(res.Stdout)+string(res.Stderr)), 160))
						}
						c.Eval(1)
					}
				}
				w.SB.Restore(sk)
			}
			// (6) later work goes through
			if nextOK {
				c.Oracle("C15.later-commit-works")
				w.SB.Restore(sk)
				if ok, how := next(); !ok {
					fail(fc, "C15.later-commit-works", "later-commit-fails", trig, "%s: afterwards a new file cannot be staged and committed (%s), although that works before and after the complete command", where, how)
				}
				w.SB.Restore(sk)
			}
			// (4) "still usable": the interrupted command issued again must not crash, and if it reports success the
			// repository is connected (a leftover lock or temporary file must not turn a later store into a no-op)
			c.Oracle("C15.usable-again")
			again := w.SB.Run(c.Goit, argv, sandbox.RunOpts{})
			c.Eval(1)
			if cr, how := again.Crashed(); cr {
				fail(fc, "C15.usable-again", "rerun-crashes", trig, "%s: the same command issued again crashes (%s): %s", where, how, clipS(firstLine(string(again.Stderr)+string(again.Stdout)), 160))
			} else if again.Exit == 0 {
				ar := w.SB.Snapshot().Repo()
				for _, p := range ar.Fsck(false) {
					fail(fc, "C15.usable-again", "rerun-"+p.Oracle, trig, "%s: the same command issued again exits 0 and leaves: %s", where, p.Msg)
				}
			}
		}
		return
	}
	// C16: error at every operation, partial write at every write
	type fl struct {
		spec string
		o    opLine
	}
	var faults []fl
	for k := 1; k <= M; k++ {
		o := opAt(func(o opLine) int { return o.N }, k)
		errnos := []string{"EIO"}
		switch o.Op {
		case "write", "create", "mkdir", "mkdirall", "openw", "createtemp":
			errnos = append(errnos, "ENOSPC")
		}
		switch o.Op {
		case "open", "create", "openw", "readfile", "createtemp", "readdir":
			errnos = append(errnos, "EACCES") // (readdir: a directory that may be searched but not listed)
		}
		// one more errno per operation, of the kind a caller may single out and "handle": a rename across file systems,
		// an interrupted read, too many open files, a read-only or full-quota file system. ENOENT and EEXIST are NOT
		// faults: they are information a program is right to act on ("no branch file yet", "directory is already there")
		switch o.Op {
		case "rename", "link":
			errnos = append(errnos, "EXDEV", "EBUSY")
		case "open", "readfile", "readdir":
			errnos = append(errnos, []string{"EMFILE", "EINTR"}[k%2])
		case "create", "openw", "createtemp":
			errnos = append(errnos, []string{"EROFS", "EMFILE"}[k%2])
		case "write":
			errnos = append(errnos, []string{"EDQUOT", "EINTR", "EAGAIN"}[k%3])
		case "read":
			errnos = append(errnos, []string{"EINTR", "EAGAIN"}[k%2])
		case "mkdir", "mkdirall":
			errnos = append(errnos, "EROFS")
		case "remove", "removeall":
			errnos = append(errnos, []string{"EBUSY", "EPERM"}[k%2])
		}
		for _, e := range errnos {
			faults = append(faults, fl{fmt.Sprintf("e:%d:%s", k, e), o})
		}
	}
	for k := 1; k <= W; k++ {
		var o opLine
		for _, x := range ops {
			if x.W == k && x.Op == "write" {
				o = x
				break
			}
		}
		faults = append(faults, fl{fmt.Sprintf("p:%d", k), o})
	}
	for _, f := range faults {
		if only != "" && only != f.spec {
			continue
		}
		fc := faultCase{name, argv, f.spec, f.o.Op + " " + pathClass(f.o.Path), w.Hist, randomHist}
		w.SB.Restore(spre)
		res := runVFS(f.spec)
		c.Eval(1)
		c.Count("C16.fault-runs")
		sk := w.SB.Snapshot()
		kr := sk.Repo()
		kind := strings.SplitN(f.spec, ":", 3)
		errName := "partial-write"
		if kind[0] == "e" {
			errName = kind[2]
		}
		trig := fmt.Sprintf("%s|%s|%s:%s", cmdKind, errName, f.o.Op, pathClass(f.o.Path))
		c.Class(trig)
		where := fmt.Sprintf("%v with %s injected at operation %s (%s %s)", argv, errName, kind[1], f.o.Op, pathClass(f.o.Path))
		c.Oracle("C16.exit-class")
		if cr, how := res.Crashed(); cr || (res.Exit != 0 && res.Exit != 1) {
			fail(fc, "C16.exit-class", "crash-or-odd-exit", trig, "%s: exit %d %s: %s", where, res.Exit, how, clipS(firstLine(string(res.Stderr)), 160))
		}
		if res.Exit == 0 {
			c.Oracle("C16.success-eq-reference")
			if d := goitDirsDiff(spost, sk); d != "" {
				fail(fc, "C16.success-eq-reference", "success-reported-directories-differ", trig, "%s: exit 0 but the directories of the repository are not those of the fault-free run: %s", where, d)
			}
			if d := decodedDiff(spost, sk); d != "" {
				fail(fc, "C16.success-eq-reference", "success-reported-result-differs", trig, "%s: exit 0 but the result differs from the fault-free result: %s", where, d)
			} else if !bytes.Equal(res.Stdout, ref.Stdout) {
				fail(fc, "C16.success-eq-reference", "success-reported-output-differs", trig, "%s: exit 0 but stdout differs from the fault-free run", where)
			}
		}
		c.Oracle("C16.fsck")
		if cmdKind != "init" || kr.HeadPresent {
			for _, p := range kr.Fsck(false) {
				fail(fc, "C16.fsck", p.Oracle, trig, "%s (exit %d): %s", where, res.Exit, p.Msg)
			}
		}
		// C03's last clause: no stored object is deleted or altered, whatever the exit status
		c.Oracle("C16.object-immutable")
		for id, oi := range preR.Objects {
			if oi.Err != nil {
				continue
			}
			if oj, ok := kr.Objects[id]; !ok {
				fail(fc, "C16.object-immutable", "object-deleted", trig, "%s (exit %d): object %s (%s), stored before the command, is gone", where, res.Exit, id, oi.Obj.Kind)
				break
			} else if oj.Err != nil || !bytes.Equal(oj.Obj.Body, oi.Obj.Body) {
				fail(fc, "C16.object-immutable", "object-altered", trig, "%s (exit %d): object %s changed", where, res.Exit, id)
				break
			}
		}
		c.Oracle("C16.branch-advanced-incomplete")
		idx0, _ := preR.Idx()
		for b, v := range kr.Branches {
			if v == preR.Branches[b] || !gitfmt.IsHex40(v) {
				continue
			}
			if v == postR.Branches[b] {
				continue // the complete command's value; its links are checked by fsck
			}
			if cmdKind == "commit" {
				cm, err := kr.Commit(v)
				if err != nil {
					continue
				}
				prev := preR.Branches[b]
				if (prev == "" && len(cm.Parents) > 0) || (prev != "" && (len(cm.Parents) != 1 || cm.Parents[0] != prev)) {
					fail(fc, "C16.branch-advanced-incomplete", "parent-link-lost", trig, "%s: branch %q advanced to %s whose parents are %v, the branch pointed to %q", where, b, short(v), cm.Parents, prev)
				}
				if snap, err := kr.Flatten(cm.Tree); err == nil && !EqualMaps(snap, idx0) {
					fail(fc, "C16.branch-advanced-incomplete", "snapshot-incomplete", trig, "%s: branch %q advanced to %s whose snapshot is not the staged set: %s", where, b, short(v), DiffMaps(idx0, snap))
				}
			}
		}
	}
}

// goitDirsDiff compares the sets of directories beneath .goit (empty ones included; objects/xx fan-out directories
// follow from the objects and are left to the decoded view).
func goitDirsDiff(a, b *sandbox.Snap) string {
	set := func(sn *sandbox.Snap) map[string]bool {
		m := map[string]bool{}
		for d := range sn.Dirs {
			if strings.HasPrefix(d, "w/.goit") && !strings.HasPrefix(d, "w/.goit/objects/") {
				m[d] = true
			}
		}
		return m
	}
	sa, sb := set(a), set(b)
	for d := range sa {
		if !sb[d] {
			return "missing " + d
		}
	}
	for d := range sb {
		if !sa[d] {
			return "extra " + d
		}
	}
	return ""
}

// decodedDiff compares two snapshots on the decoded view (config as maps).
func decodedDiff(a, b *sandbox.Snap) string {
	ra, rb := a.Repo(), b.Repo()
	if ra.HeadRaw != rb.HeadRaw {
		return fmt.Sprintf("HEAD %q vs %q", ra.HeadRaw, rb.HeadRaw)
	}
	if !EqualMaps(ra.Branches, rb.Branches) {
		return fmt.Sprintf("branches %v vs %v", ra.Branches, rb.Branches)
	}
	ia, oka := ra.Idx()
	ib, okb := rb.Idx()
	if oka != okb || !EqualMaps(ia, ib) {
		return "staging area: " + DiffMaps(ia, ib)
	}
	for id, oi := range ra.Objects {
		oj, ok := rb.Objects[id]
		if !ok {
			return "object " + id + " missing"
		}
		if oi.Err == nil && (oj.Err != nil || !bytes.Equal(oi.Obj.Body, oj.Obj.Body)) {
			return "object " + id + " differs"
		}
	}
	for id := range rb.Objects {
		if _, ok := ra.Objects[id]; !ok {
			return "extra object " + id
		}
	}
	if ok, why := cfgEqual(ra.Local, rb.Local); !ok {
		return "local config: " + why
	}
	if ok, why := cfgEqual(ra.Global, rb.Global); !ok {
		return "global config: " + why
	}
	wa, wb := a.WT(), b.WT()
	for p, x := range wa {
		if y, ok := wb[p]; !ok || !bytes.Equal(x, y) {
			return "working file " + p
		}
	}
	for p := range wb {
		if _, ok := wa[p]; !ok {
			return "extra working file " + p
		}
	}
	if strings.Join(ra.LogHEAD, "\n") != strings.Join(rb.LogHEAD, "\n") {
		return "logs/HEAD differs"
	}
	ga, gb := a.GoitFiles(), b.GoitFiles()
	for f, x := range ga {
		if strings.HasPrefix(f, "logs/refs/") {
			if y, ok := gb[f]; !ok || !bytes.Equal(x, y) {
				return "branch log " + f + " differs"
			}
		}
	}
	return ""
}

func runFaultProp(c *core.Ctx) {
	corpus := scenarioCorpus()
	nRand := c.Pick(200, 2000)
	if c.Prop == "C16" {
		nRand = c.Pick(100, 1200)
		corpus = append(corpus, readOnlyScenarios()...)
	} else {
		// C15 only: objects of 16 MiB and more (where a streaming / large-object write path would begin)
		corpus = append(corpus, scenario{"add-object-of-16MiB", func(k *Walker) {
			k.Init()
			commitBase(k)
			k.W.EditRand("huge.bin", "c15-huge", 16<<20+7)
		}, fixed("add", "huge.bin")})
	}
	total := len(corpus) + nRand
	c.RunHistories(total, func() []core.Monitor { return nil }, func(w *core.World) {
		if w.Hist < len(corpus) {
			sc := corpus[w.Hist]
			k := NewWalker(w, gen.NameOpts{MaxDepth: 2, N: 3}, nil)
			sc.Setup(k)
			argv := sc.Cmd(k)
			runFaults(c, w, sc.Name, argv, false, "")
			return
		}
		// random pre-state, random modifying command
		wts := map[string]int{
			"edit-new": 10, "edit-mod": 8, "edit-rm": 3, "edit-rmdir": 1, "add": 12, "rm": 3, "commit": 6, "commit-all": 6,
			"branch-create": 3, "switch": 3, "switch-c": 2, "branch-rename": 1, "reset": 2, "restore-staged": 2,
		}
		k := NewWalker(w, gen.NameOpts{Space: w.Hist%2 == 0, MaxDepth: 3, N: 5}, wts)
		k.Hostile = 0
		k.Init()
		for i := 0; i < 4+w.Rng.IntN(14); i++ {
			k.Step()
		}
		// pick the command by letting the walker emit it, then undo it
		pre := w.State()
		act := modifyingActions[w.Rng.IntN(len(modifyingActions))]
		if c.Prop == "C16" && w.Hist%4 == 3 {
			act = readOnlyActions[w.Rng.IntN(len(readOnlyActions))]
		}
		nBefore := len(w.Steps)
		for tries := 0; tries < 4 && len(w.Steps) == nBefore; tries++ {
			k.Do(act)
		}
		var argv []string
		for _, st := range w.Steps[nBefore:] {
			if st.Kind == "goit" && (st.Cmd() != "reflog" || act == "reflog") {
				argv = st.Argv
				pre = st.Pre
			}
		}
		if argv == nil {
			return
		}
		w.SB.Restore(pre)
		w.Invalidate()
		runFaults(c, w, "random:"+act, argv, true, "")
	})
}

func replayFault(c *core.Ctx, wt *core.Witness) bool {
	var fc faultCase
	if err := json.Unmarshal(wt.Custom, &fc); err != nil {
		fmt.Println("witness has no fault case:", err)
		return false
	}
	w, err := c.NewWorld(wt.Hist, nil)
	if err != nil {
		return false
	}
	defer w.Close()
	for _, s := range wt.Steps {
		st := w.ReplayStep(s)
		fmt.Println("  ", st.String())
	}
	// the recorded steps of a random history include the probing command: restore its pre-state
	if fc.Rand && len(w.Steps) > 0 {
		for i := len(w.Steps) - 1; i >= 0; i-- {
			if w.Steps[i].Kind == "goit" && strings.Join(w.Steps[i].Argv, "\x00") == strings.Join(fc.Argv, "\x00") {
				w.SB.Restore(w.Steps[i].Pre)
				w.Invalidate()
				break
			}
		}
	}
	fmt.Printf("   fault %s on %v (%s)\n", fc.Fault, fc.Argv, fc.Op)
	before := c.Violations()
	runFaults(c, w, fc.Scenario, fc.Argv, fc.Rand, fc.Fault)
	return c.Violations() > before
}

func init() {
	sortedActs := append([]string{}, modifyingActions...)
	sort.Strings(sortedActs)
	register(&Prop{ID: "C15", Level: "fault_enumeration", NeedVFS: true,
		Rule:   "for every (pre-state, modifying command) of a hand-picked scenario corpus (init, config local/global, add new/modified/deleted/dir/., rm file/dir, first commit, commit with unchanged sub-tree, commit on another branch, emptied commit, branch create/rename/delete, switch, switch -c, reset soft/mixed/hard, restore file/deleted dir/--staged, update-ref) and of seeded random histories: the command is run once fault-free through the vfs-rewritten binary (every os.* call site counted, clock pinned) to obtain the sequence of file-system operations, then re-run from the restored pre-state for EVERY position k, the process killing itself (SIGKILL) before the k-th mutating operation; oracle on the post-crash state: independent fsck of everything reachable from branches and the index, each branch value in {before, after}, HEAD text in {before, after}, and ls-files / rev-parse HEAD / log -n 3 / status / branch --list / reflog still exit 0 if they do before and after; distinct = (command, operation kind at the crash point, file class)",
		Mons:   func() []core.Monitor { return nil },
		Run:    runFaultProp,
		Replay: replayFault,
		Floors: []core.Floor{{Key: "C15.crash-points", Min: 300}, {Key: "C15.scenarios", Min: 30}},
		Assume: []string{"a crash is process death between two file-system modifications (no torn single write, no reordering of persisted writes, no power loss)"},
	})
	register(&Prop{ID: "C16", Level: "fault_enumeration", NeedVFS: true,
		Rule:   "same (pre-state, command) pairs as C15; every position k over ALL operations (create, open, read, readdir, write, mkdir, rename, remove; stat excluded) fails once with EIO (all), ENOSPC (write/create/mkdir) or EACCES (open/create), plus a partial write (half the buffer, then ENOSPC) at every write; oracle: exit status in {0,1} without panic; exit 0 => decoded repository state and stdout equal the fault-free run; independent fsck (C03's invariant) whatever the exit status; no branch advanced to a commit lacking its parent link or snapshot; distinct = (command, errno, operation kind, file class)",
		Mons:   func() []core.Monitor { return nil },
		Run:    runFaultProp,
		Replay: replayFault,
		Floors: []core.Floor{{Key: "C16.fault-runs", Min: 1000}, {Key: "C16.scenarios", Min: 30}},
		Assume: []string{"single-fault sequences only; stat and close are outside the fault domain"},
	})
}

// resolveFollow fills the placeholders of a follow-up command: "@HEAD@" = the commit HEAD named before the
// interrupted command, "@NEW@" = the one it names after the complete command.
func resolveFollow(f []string, headBefore, headAfter string) []string {
	if f == nil {
		return nil
	}
	out := make([]string, len(f))
	for i, a := range f {
		switch a {
		case "@HEAD@":
			a = headBefore
		case "@NEW@":
			a = headAfter
		}
		out[i] = a
	}
	return out
}

func unionKeys(ms ...map[string]string) map[string]bool {
	u := map[string]bool{}
	for _, m := range ms {
		for k := range m {
			u[k] = true
		}
	}
	return u
}
