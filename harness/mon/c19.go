package mon

import (
	"verif/harness/core"
)

type C19Mon struct{}

func (C19Mon) After(w *core.World, st *core.Step) {}

func runC19(c *core.Ctx) {
	RunIn(c, "", 16, 4096)
}

func init() {
	register(&Prop{ID: "C19", Level: "fault_enumeration", NeedIn: true,
		Rule:   "a corpus of valid files produced by Goit itself (objects of all three kinds, index, HEAD, branch, config, global config, reflog, ignore file); for each file: every truncation length, every single-byte deletion and single-byte substitutions (bit flip + seeded values; thorough: all 255 values for files <= 512 B); for objects the same mutations also on the INFLATED content (re-deflated for GetObject, fed directly to NewTree/NewCommit) and every pair of valid object files swapped; plus seeded random byte strings with dictionary splices; each call to GetObject/NewTree/NewCommit/NewIndex/NewHead/NewRefs/NewConfig/NewReflog(+GetRecord,Show)/NewIgnore/ReadHash runs under recover + an affine allocation bound (64 MiB + 2000 x input size, runtime.MemStats) + a 2 s bound; wrong-content oracle: GetObject without error => SHA-1(header+Data) == requested id; also insertions of tokens (overlong digit runs, an empty section header, separators) and duplicated slices; CLI: read commands, and modifying commands on a throw-away copy, on mutated repositories must not crash; crafted well-formed states (a correctly named object of the wrong kind / a missing or zero id behind a branch, a tree line, a parent line, a tree entry or a staging-area entry; two-parent histories; trees with odd modes, names, order, duplicates, a 300-level chain; commits lacking headers; branch and HEAD files with odd but printable contents; staging-area files with odd paths; absent index / logs / branch files) x every command; a process death is attributed to the input in the progress file; distinct = (decoder, mutation kind, outcome class)",
		Mons:   func() []core.Monitor { return []core.Monitor{C19Mon{}} },
		Run:    runC19,
		Floors: []core.Floor{{Key: "C19.panic", Min: 20000}, {Key: "C19.wrong-content", Min: 10}, {Key: "C19.cli", Min: 300}, {Key: "C19.crafted", Min: 2000}},
	})
}
