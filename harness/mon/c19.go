package mon

import (
	"encoding/json"
	"fmt"
	"os"
	"os/exec"
	"path/filepath"
	"regexp"
	"strconv"
	"strings"

	"verif/harness/core"
)

type C19Mon struct{}

func (C19Mon) After(w *core.World, st *core.Step) {}

func runC19(c *core.Ctx) {
	RunIn(c, "", 16, 4096)
	if os.Getenv("VERIF_NOFUZZ") == "" {
		runC19Fuzz(c)
	}
}

var (
	fuzzExecsRe = regexp.MustCompile(`execs: (\d+) `)
	fuzzTotalRe = regexp.MustCompile(`new interesting: \d+ \(total: (\d+)\)`)
	fuzzFileRe  = regexp.MustCompile(`Failing input written to (\S+)`)
)

// runC19Fuzz: the coverage-guided part of the C19 workload. Go's native fuzzing engine (part of the toolchain, works
// offline) mutates the inputs of every decoder under coverage feedback, with an ITERATION budget; the oracle is the
// target's own (harness/inproc/fuzz_test.go): panic, allocation bound, time bound, wrong content. The engine's
// cache of interesting inputs lives in the scratch directory, so every run starts from the seed corpus.
func runC19Fuzz(c *core.Ctx) {
	dir := filepath.Join(c.Scratch, "inproc")
	if _, err := os.Stat(filepath.Join(dir, "fuzz_test.go")); err != nil {
		c.Broken("fuzz targets missing in " + dir)
		return
	}
	fast, slow := c.Pick(60000, 600000), c.Pick(15000, 120000)
	targets := []struct {
		name string
		n    int
	}{{"FuzzObjectFile", slow * 2}, {"FuzzTreeBody", fast}, {"FuzzCommitBody", fast}, {"FuzzIndexFile", slow}, {"FuzzHeadFile", slow}, {"FuzzBranchFile", slow},
		{"FuzzConfigFile", slow}, {"FuzzReflogFile", slow}, {"FuzzIgnoreFile", slow}, {"FuzzReadHash", fast}}
	cache := filepath.Join(c.Scratch, "fuzzcache")
	for _, t := range targets {
		cmd := exec.Command("go", "test", "-tags", "verif", "-run", "^$", "-fuzz", "^"+t.name+"$", "-fuzztime", fmt.Sprintf("%dx", t.n), "-test.fuzzcachedir", cache, ".")
		cmd.Dir = dir
		cmd.Env = append(os.Environ(), "TMPDIR="+c.Scratch)
		out, err := cmd.CombinedOutput()
		text := string(out)
		var execs, total int64
		if m := fuzzExecsRe.FindAllStringSubmatch(text, -1); len(m) > 0 {
			execs, _ = strconv.ParseInt(m[len(m)-1][1], 10, 64)
		}
		if m := fuzzTotalRe.FindAllStringSubmatch(text, -1); len(m) > 0 {
			total, _ = strconv.ParseInt(m[len(m)-1][1], 10, 64)
		}
		c.Eval(execs)
		c.OracleN("C19.fuzz", execs)
		c.CountN("C19.fuzz-execs|"+t.name, execs)
		c.CountN("C19.fuzz-corpus|"+t.name, total)
		c.Class(fmt.Sprintf("fuzz|%s|corpus-%d", t.name, total))
		if err == nil {
			if execs < int64(t.n) {
				c.Broken(fmt.Sprintf("fuzzing %s ended after %d of %d executions without a finding: %s", t.name, execs, t.n, clipS(lastLines(text, 3), 300)))
			}
			continue
		}
		if !strings.Contains(text, "--- FAIL") && !strings.Contains(text, "Failing input written") {
			c.Broken(fmt.Sprintf("go test -fuzz %s did not run: %s", t.name, clipS(lastLines(text, 6), 600)))
			continue
		}
		var input []byte
		where := ""
		if m := fuzzFileRe.FindStringSubmatch(text); m != nil {
			where = m[1]
			input, _ = os.ReadFile(filepath.Join(dir, where))
		}
		line := ""
		for _, ln := range strings.Split(text, "\n") {
			l := strings.TrimSpace(ln)
			if i := strings.Index(l, "panic: "); i > 0 {
				l = l[i:]
			}
			if strings.HasPrefix(l, "panic:") || strings.HasPrefix(l, "fatal error:") || strings.Contains(l, "allocated") || strings.Contains(l, " took ") || strings.Contains(l, "returned") || strings.Contains(l, "hung or terminated") {
				line = l
				break
			}
		}
		sym := "fuzz-finding"
		switch {
		case strings.HasPrefix(line, "panic:") || strings.HasPrefix(line, "fatal error:"):
			sym = panicClass(line)
		case strings.Contains(line, "allocated"):
			sym = "allocation-over-bound"
		case strings.Contains(line, " took ") || strings.Contains(line, "hung"):
			sym = "hang-or-slow"
		case strings.Contains(line, "returned"):
			sym = "damaged-object-returned"
		}
		f := core.Failure{Prop: "C19", Oracle: "C19.fuzz", Symptom: sym, Trigger: t.name, Detail: fmt.Sprintf("%s: %s; failing input (go fuzz corpus format): %s", t.name, clipS(line, 300), clipS(string(input), 600))}
		if c.Fail(f) {
			b, _ := json.Marshal(map[string]string{"target": t.name, "corpus_file": string(input), "go_test_output": clipS(lastLines(text, 40), 6000)})
			c.WriteWitness(&core.Witness{Kind: "custom", Failures: []core.Failure{f}, Custom: b})
		}
	}
}

func lastLines(s string, n int) string {
	ls := strings.Split(strings.TrimRight(s, "\n"), "\n")
	if len(ls) > n {
		ls = ls[len(ls)-n:]
	}
	return strings.Join(ls, " | ")
}

func init() {
	register(&Prop{ID: "C19", Level: "fault_enumeration", NeedIn: true,
		Rule:           "a corpus of valid files produced by Goit itself (objects of all three kinds, index, HEAD, branch, config, global config, reflog, ignore file); for each file: every truncation length, every single-byte deletion and single-byte substitutions (bit flip + seeded values; thorough: all 255 values for files <= 512 B); for objects the same mutations also on the INFLATED content (re-deflated for GetObject, fed directly to NewTree/NewCommit) and every pair of valid object files swapped; plus seeded random byte strings with dictionary splices; each call to GetObject/NewTree/NewCommit/NewIndex/NewHead/NewRefs/NewConfig/NewReflog(+GetRecord,Show)/NewIgnore/ReadHash runs under recover + an affine allocation bound (64 MiB + 2000 x input size, runtime.MemStats) + a 2 s bound; wrong-content oracle: GetObject without error => SHA-1(header+Data) == requested id; also insertions of tokens (overlong digit runs, an empty section header, separators) and duplicated slices; CLI: read commands, and modifying commands on a throw-away copy, on mutated repositories must not crash; crafted well-formed states (a correctly named object of the wrong kind / a missing or zero id behind a branch, a tree line, a parent line, a tree entry or a staging-area entry; two-parent histories; trees with odd modes, names, order, duplicates, a 300-level chain; commits lacking headers; branch and HEAD files with odd but printable contents; staging-area files with odd paths; absent index / logs / branch files) x every command; a process death is attributed to the input in the progress file; distinct = (decoder, mutation kind, outcome class)",
		Mons:           func() []core.Monitor { return []core.Monitor{C19Mon{}} },
		Run:            runC19,
		Floors:         []core.Floor{{Key: "C19.panic", Min: 20000}, {Key: "C19.wrong-content", Min: 10}, {Key: "C19.cli", Min: 300}, {Key: "C19.crafted", Min: 2000}, {Key: "C19.fuzz", Min: 200000}},
		ThoroughFloors: []core.Floor{{Key: "C19.fuzz", Min: 1000000}},
	})
}
