package mon

import (
	"fmt"
	"math/rand/v2"
	"os"
	"path/filepath"
	"sort"
	"strconv"
	"strings"
	"sync"
	"syscall"
	"unicode"

	"verif/harness/core"
	"verif/harness/gen"
	"verif/harness/gitfmt"
	"verif/harness/sandbox"
)

// ---------------------------------------------------------------------------------------
// C10 — branch and HEAD state machine

type C10Mon struct{}

func c10NeverValid(n string) bool { return n == "." || n == ".." }

func c10NameInDomain(n string) bool {
	if n == "" {
		return false
	}
	if c10NeverValid(n) {
		return true // words over the alphabet, but not possible as a file name: every operation on them is refused
	}
	if strings.Trim(n, ".") == "" {
		return false
	}
	for _, r := range n {
		if !(r >= 'a' && r <= 'z' || r >= 'A' && r <= 'Z' || r >= '0' && r <= '9' || r == '-' || r == '_' || r == '.') {
			return false
		}
	}
	return !strings.HasPrefix(n, "-")
}

type brState struct {
	Br   map[string]string
	Head string
}

func (s brState) equal(o brState) bool { return s.Head == o.Head && EqualMaps(s.Br, o.Br) }
func (s brState) String() string {
	var parts []string
	for _, k := range gitfmt.SortedKeys(s.Br) {
		parts = append(parts, k+"="+short(s.Br[k]))
	}
	return "HEAD->" + s.Head + " {" + strings.Join(parts, " ") + "}"
}
func (s brState) with(name, id string) brState {
	m := CopyMap(s.Br)
	m[name] = id
	return brState{m, s.Head}
}
func (s brState) without(name string) brState {
	m := CopyMap(s.Br)
	delete(m, name)
	return brState{m, s.Head}
}

func stateOf(r *sandbox.Repo) (brState, bool) {
	if !r.HeadOK {
		return brState{}, false
	}
	return brState{CopyMap(r.Branches), r.HeadBranch}, true
}

// c10Expect returns (acceptable post-states, refuse expected, in-domain).
func c10Expect(st *core.Step, pre brState, r *sandbox.Repo) (alts []brState, refuse bool, domain bool) {
	pa := ParseArgv(st.Argv)
	headCommit, hasCommit := pre.Br[pre.Head]
	switch st.Cmd() {
	case "branch":
		rn, isR := pa.Flag("-r", "--rename")
		dn, isD := pa.Flag("-d", "--delete")
		_, isL := pa.Flag("-l", "--list")
		switch {
		case isL && !isR && !isD && len(pa.Pos) == 0 && pa.OnlyFlags("-l", "--list"):
			return []brState{pre}, false, true
		case isR && !isD && !isL && len(pa.Pos) == 0 && pa.OnlyFlags("-r", "--rename"):
			if !c10NameInDomain(rn) {
				return nil, false, false
			}
			if _, dup := pre.Br[rn]; dup || !hasCommit || c10NeverValid(rn) {
				return nil, true, true
			}
			n := pre.without(pre.Head).with(rn, headCommit)
			n.Head = rn
			return []brState{n}, false, true
		case isD && !isR && !isL && len(pa.Pos) == 0 && pa.OnlyFlags("-d", "--delete"):
			if !c10NameInDomain(dn) {
				return nil, false, false
			}
			if _, ok := pre.Br[dn]; !ok || dn == pre.Head {
				return nil, true, true
			}
			return []brState{pre.without(dn)}, false, true
		case !isR && !isD && !isL && len(pa.Pos) == 1 && len(pa.Flags) == 0:
			n := pa.Pos[0]
			if !c10NameInDomain(n) {
				return nil, false, false
			}
			if _, dup := pre.Br[n]; dup || !hasCommit || c10NeverValid(n) {
				return nil, true, true
			}
			return []brState{pre.with(n, headCommit)}, false, true
		}
		return nil, false, false
	case "switch":
		cn, isC := pa.Flag("-c", "--create")
		switch {
		case isC && len(pa.Pos) == 0 && pa.OnlyFlags("-c", "--create"):
			if !c10NameInDomain(cn) {
				return nil, false, false
			}
			if _, dup := pre.Br[cn]; dup || !hasCommit || c10NeverValid(cn) {
				return nil, true, true
			}
			n := pre.with(cn, headCommit)
			n.Head = cn
			return []brState{n}, false, true
		case !isC && len(pa.Pos) == 1 && len(pa.Flags) == 0:
			n := pa.Pos[0]
			if !c10NameInDomain(n) {
				return nil, false, false
			}
			if _, ok := pre.Br[n]; !ok {
				return nil, true, true
			}
			s := brState{CopyMap(pre.Br), n}
			return []brState{s}, false, true
		}
		return nil, false, false
	case "update-ref":
		if len(pa.Pos) != 2 || len(pa.Flags) != 0 || !strings.HasPrefix(pa.Pos[0], "refs/heads/") {
			return nil, false, false
		}
		n := strings.TrimPrefix(pa.Pos[0], "refs/heads/")
		if !c10NameInDomain(n) {
			return nil, false, false
		}
		id := pa.Pos[1]
		_, exists := pre.Br[n]
		isCommit := false
		if o, ok := r.Obj(id); ok && o.Kind == "commit" && gitfmt.IsHex40(id) {
			isCommit = true
		}
		if !exists || !isCommit {
			return nil, true, true
		}
		a := pre.with(n, id)
		b := pre.with(n, id)
		b.Head = n // whether update-ref also makes HEAD name that branch is left open
		return []brState{a, b}, false, true
	}
	return nil, false, false
}

func (C10Mon) After(w *core.World, st *core.Step) {
	if st.Kind != "goit" || !st.Pre.HasGoit() {
		return
	}
	c := w.C
	pre, ok := stateOf(st.Pre.Repo())
	if !ok {
		return
	}
	post, okp := stateOf(st.Post.Repo())
	switch st.Cmd() {
	case "branch", "switch", "update-ref":
		alts, refuse, dom := c10Expect(st, pre, st.Pre.Repo())
		if !dom {
			c.Count("C10.outside-domain")
			return
		}
		action := st.Cmd()
		pa := ParseArgv(st.Argv)
		for f := range pa.Flags {
			action += " " + f
		}
		trig := action
		c.Class(fmt.Sprintf("C10|%s|refuse=%v|%s", action, refuse, abstractKey(st.Pre.Repo())))
		if !okp {
			w.Fail("C10.transition", "head-unreadable", trig, "after %s HEAD is %q", st.String(), st.Post.Repo().HeadRaw)
			return
		}
		if refuse {
			c.Oracle("C10.refusal-frame")
			if st.Exit == 0 {
				w.Fail("C10.refusal-frame", "invalid-accepted", trig, "%s must be refused in state %s but exited 0 (now %s)", st.String(), pre, post)
			}
			if same, d := sameSandbox(st.Pre, st.Post); !same {
				w.Fail("C10.refusal-frame", "state-changed", trig, "%s must be refused in state %s but changed %v", st.String(), pre, firstN(d, 5))
			}
			return
		}
		c.Oracle("C10.transition")
		match := false
		for _, a := range alts {
			if a.equal(post) {
				match = true
			}
		}
		if !match {
			sym := "wrong-post-state"
			if post.equal(pre) {
				sym = "valid-operation-not-applied"
			}
			w.Fail("C10.transition", sym, trig, "%s in state %s must give %s but gave %s (exit %d): %s", st.String(), pre, alts[0], post, st.Exit, clipS(firstLine(st.Stdout+st.Stderr), 120))
		} else if st.Exit != 0 && !post.equal(pre) {
			w.Fail("C10.refusal-frame", "failed-but-changed", trig, "%s exited %d but changed the state from %s to %s", st.String(), st.Exit, pre, post)
		}
		// views
		if st.Cmd() == "branch" {
			if _, isL := pa.Flag("-l", "--list"); isL && st.Exit == 0 {
				c.Oracle("C10.list-view")
				var names []string
				cur := ""
				for _, ln := range strings.Split(strings.TrimSuffix(st.Stdout, "\n"), "\n") {
					if ln == "" {
						continue
					}
					if strings.HasPrefix(ln, "* ") {
						cur = ln[2:]
						names = append(names, ln[2:])
					} else {
						names = append(names, strings.TrimSpace(ln))
					}
				}
				sort.Strings(names)
				want := gitfmt.SortedKeys(pre.Br)
				wantCur := ""
				if _, ok := pre.Br[pre.Head]; ok {
					wantCur = pre.Head
				}
				if strings.Join(names, "\x00") != strings.Join(want, "\x00") || cur != wantCur {
					w.Fail("C10.list-view", "list-differs", trig, "branch --list shows %v (current %q), stored: %v (current %q)", names, cur, want, wantCur)
				}
			}
		}
	case "rev-parse":
		pa := ParseArgv(st.Argv)
		if len(pa.Flags) > 0 || len(pa.Pos) == 0 {
			return
		}
		var want []string
		allKnown := true
		for _, a := range pa.Pos {
			name := a
			if a == "HEAD" { // exactly: "head" and "Head" are ordinary branch names
				name = pre.Head
			} else if !c10NameInDomain(a) {
				return
			}
			v, ok := pre.Br[name]
			if !ok {
				allKnown = false
				break
			}
			want = append(want, v)
		}
		c.Oracle("C10.revparse-view")
		if allKnown {
			got := strings.Split(strings.TrimSuffix(st.Stdout, "\n"), "\n")
			if st.Exit != 0 || strings.Join(got, " ") != strings.Join(want, " ") {
				w.Fail("C10.revparse-view", "revparse-differs", "rev-parse", "%s prints %v (exit %d), stored state says %v", st.String(), got, st.Exit, want)
			}
		} else if st.Exit == 0 {
			w.Fail("C10.revparse-view", "unknown-ref-resolved", "rev-parse", "%s names an unknown branch but exited 0: %q", st.String(), clipS(st.Stdout, 100))
		}
	case "commit", "reset":
		if !okp {
			return
		}
		c.Oracle("C10.transition")
		if post.Head != pre.Head {
			w.Fail("C10.transition", "head-moved", st.Cmd(), "%s changed HEAD from %q to %q", st.String(), pre.Head, post.Head)
		}
		for b, v := range pre.Br {
			if b != pre.Head && post.Br[b] != v {
				w.Fail("C10.transition", "other-branch-changed", st.Cmd(), "%s changed branch %q (%s -> %s)", st.String(), b, short(v), short(post.Br[b]))
			}
		}
		for b := range post.Br {
			if _, was := pre.Br[b]; !was && b != pre.Head {
				w.Fail("C10.transition", "branch-appeared", st.Cmd(), "%s created branch %q", st.String(), b)
			}
		}
	}
}

// abstractKey: branches -> generation of their commit (length of the parent chain), HEAD name.
func abstractKey(r *sandbox.Repo) string {
	gen := func(id string) int {
		n := 0
		for id != "" && n < 100 {
			c, err := r.Commit(id)
			if err != nil {
				break
			}
			n++
			if len(c.Parents) == 0 {
				break
			}
			id = c.Parents[0]
		}
		return n
	}
	var parts []string
	for _, b := range gitfmt.SortedKeys(r.Branches) {
		parts = append(parts, fmt.Sprintf("%s:%d", b, gen(r.Branches[b])))
	}
	return "H=" + r.HeadBranch + " " + strings.Join(parts, ",")
}

var c10Names = []string{"main", "a", "ab", "b", "a.b", "a-b", ".a", "."}

type c10Node struct {
	snap  *sandbox.Snap
	key   string
	depth int
}

func c10Actions(r *sandbox.Repo) [][]string {
	var acts [][]string
	for _, n := range c10Names {
		acts = append(acts, []string{"branch", n}, []string{"branch", "-d", n}, []string{"branch", "-r", n}, []string{"switch", n}, []string{"switch", "-c", n})
	}
	// update-ref to every commit known (bounded to the 3 smallest ids for determinism)
	var commits []string
	for _, id := range gitfmt.SortedKeys(r.Objects) {
		if o, ok := r.Obj(id); ok && o.Kind == "commit" {
			commits = append(commits, id)
		}
	}
	if len(commits) > 3 {
		commits = commits[:3]
	}
	for _, n := range c10Names[:4] {
		for _, id := range commits {
			acts = append(acts, []string{"update-ref", "refs/heads/" + n, id})
		}
	}
	acts = append(acts, []string{"@commit"}, []string{"@reset-soft-1"}, []string{"branch", "--list"}, []string{"rev-parse", "HEAD"})
	return acts
}

// c10Nested: a repository inside the working tree of another one (a vendored project; the outer repository is
// initialised later -- init refuses to run beneath an existing one). Branch commands issued in the inner working
// tree act on, and report, the inner repository: the nearest one.
func c10Nested(c *core.Ctx) {
	c.RunHistoriesAt(7_000_000, c.Pick(6, 24), func() []core.Monitor { return nil }, func(w *core.World) {
		inner := pickS(w.Rng, []string{"vendor/lib", "third party/x", "inner"})
		file := func(sn *sandbox.Snap, rel string) string {
			return strings.TrimSpace(string(sn.Files["w/"+inner+"/.goit/"+rel]))
		}
		outer := func(sn *sandbox.Snap, rel string) (string, bool) {
			b, ok := sn.Files["w/.goit/"+rel]
			return strings.TrimSpace(string(b)), ok
		}
		w.Edit("mkdir", inner, nil)
		w.GoitIn(inner, "init")
		w.GoitIn(inner, "config", "user.name", "Inner")
		w.GoitIn(inner, "config", "user.email", "inner@example.com")
		w.Write(inner+"/f.txt", []byte("1\n"))
		w.GoitIn(inner, "add", "f.txt")
		w.GoitIn(inner, "commit", "-m", "inner one")
		w.GoitIn(inner, "branch", "dev")
		w.Write(inner+"/f.txt", []byte("2\n"))
		w.GoitIn(inner, "add", "f.txt")
		w.GoitIn(inner, "commit", "-m", "inner two")
		w.Goit("init")
		w.Goit("config", "user.name", "Outer")
		w.Goit("config", "user.email", "outer@example.com")
		w.Write("o.txt", []byte("o\n"))
		w.Goit("add", "o.txt")
		w.Goit("commit", "-m", "outer one")
		trig := "nested-repository"
		fail := func(sym, format string, a ...any) { w.Fail("C10.nested", sym, trig, format, a...) }
		c.Oracle("C10.nested")
		st := w.GoitIn(inner, "branch", "--list")
		if st.Exit != 0 || !strings.Contains(st.Stdout, "dev") || !strings.Contains(st.Stdout, "main") {
			fail("list-differs", "in the inner working tree %s prints %q (exit %d); the inner repository has the branches dev and main", st.String(), clipS(st.Stdout, 100), st.Exit)
		}
		c.Oracle("C10.nested")
		st = w.GoitIn(inner, "rev-parse", "dev")
		if want := file(st.Post, "refs/heads/dev"); st.Exit != 0 || strings.TrimSpace(st.Stdout) != want {
			fail("revparse-differs", "in the inner working tree %s prints %q (exit %d); the inner branch dev holds %s", st.String(), clipS(st.Stdout, 80), st.Exit, want)
		}
		c.Oracle("C10.nested")
		st = w.GoitIn(inner, "branch", "feature")
		if _, inOuter := outer(st.Post, "refs/heads/feature"); st.Exit != 0 || file(st.Post, "refs/heads/feature") != file(st.Post, "refs/heads/main") || inOuter {
			fail("valid-operation-not-applied", "in the inner working tree %s (exit %d): inner feature=%q main=%q, created in the outer repository: %v", st.String(), st.Exit, file(st.Post, "refs/heads/feature"), file(st.Post, "refs/heads/main"), inOuter)
		}
		c.Oracle("C10.nested")
		st = w.GoitIn(inner, "switch", "dev")
		if oh, _ := outer(st.Post, "HEAD"); st.Exit != 0 || file(st.Post, "HEAD") != "ref: refs/heads/dev" || oh != "ref: refs/heads/main" {
			fail("valid-operation-not-applied", "in the inner working tree %s (exit %d): inner HEAD %q, outer HEAD %q", st.String(), st.Exit, file(st.Post, "HEAD"), oh)
		}
		c.Oracle("C10.nested")
		st = w.GoitIn(inner, "branch", "-d", "feature")
		if file(st.Post, "refs/heads/feature") != "" || st.Exit != 0 {
			fail("valid-operation-not-applied", "in the inner working tree %s (exit %d) left the inner branch feature", st.String(), st.Exit)
		}
	})
}

func runC10(c *core.Ctx) {
	c10Nested(c)
	mons := Registry["C10"].Mons
	// ---- explicit state-space exploration of the real binary
	maxDepth := c.Pick(3, 4)
	maxTransitions := c.Pick(25000, 200000)
	var mu sync.Mutex
	seen := map[string]bool{}
	var frontier []c10Node
	// initial states: fresh repo, one commit on main
	w0, err := c.NewWorld(1_000_000, nil)
	if err != nil {
		c.Broken(err.Error())
		return
	}
	k0 := NewWalker(w0, gen.NameOpts{}, nil)
	k0.Init()
	fresh := w0.State()
	w0.Write("f", []byte("1\n"))
	w0.Goit("add", "f")
	w0.Goit("commit", "-m", "c1")
	one := w0.State()
	w0.Close()
	for _, sn := range []*sandbox.Snap{fresh, one} {
		key := abstractKey(sn.Repo())
		seen[key] = true
		frontier = append(frontier, c10Node{sn, key, 0})
	}
	transitions := 0
	states := len(frontier)
	for depth := 0; depth < maxDepth && len(frontier) > 0; depth++ {
		cur := frontier
		frontier = nil
		if transitions >= maxTransitions {
			break
		}
		var next []c10Node
		c.ParallelN(len(cur), func(i int) {
			mu.Lock()
			over := transitions >= maxTransitions
			mu.Unlock()
			if over {
				return
			}
			node := cur[i]
			w, err := c.NewWorld(2_000_000+depth*100_000+i, mons())
			if err != nil {
				c.Broken(err.Error())
				return
			}
			defer w.Close()
			acts := c10Actions(node.snap.Repo())
			for ai, a := range acts {
				w.SB.Restore(node.snap)
				w.Invalidate()
				switch a[0] {
				case "@commit":
					w.Write("f", []byte(fmt.Sprintf("d%d-%d-%d\n", depth, i, ai)))
					w.Goit("add", "f")
					w.Goit("commit", "-m", fmt.Sprintf("c d%d s%d", depth, i))
				case "@reset-soft-1":
					w.Goit("reset", "--soft", "HEAD@{1}")
				default:
					w.Goit(a...)
				}
				mu.Lock()
				transitions++
				mu.Unlock()
				post := w.State()
				if !post.Repo().HeadOK {
					continue
				}
				key := abstractKey(post.Repo())
				mu.Lock()
				if !seen[key] {
					seen[key] = true
					states++
					next = append(next, c10Node{post, key, depth + 1})
				}
				mu.Unlock()
			}
			w.Finish()
		})
		sort.Slice(next, func(i, j int) bool { return next[i].key < next[j].key })
		frontier = next
	}
	c.Extra["states"] = states
	c.Extra["transitions"] = transitions
	c.Extra["exploration_depth"] = maxDepth
	c.Extra["abstraction"] = "branch name -> generation (parent-chain length) of its commit, plus HEAD's branch name; reflog and file content ignored; exhaustive over abstract transitions to the depth bound (or the transition cap), not over concrete states"
	c.Extra["name_alphabet"] = c10Names
	c.CountN("C10.bfs-transitions", int64(transitions))
	// ---- random walks
	n := c.Pick(300, 2500)
	c.RunHistories(n, mons, func(w *core.World) {
		wts := map[string]int{
			"branch-create": 14, "branch-delete": 10, "branch-rename": 10, "branch-list": 6,
			"switch": 12, "switch-c": 8, "update-ref": 10, "rev-parse": 8,
			"commit-all": 8, "reset": 4, "edit-new": 2,
		}
		k := NewWalker(w, gen.NameOpts{MaxDepth: 1, N: 3}, wts)
		k.Hostile = 6
		k.settle = false // C10's names stay inside the alphabet of its statement
		k.BranchNames = []string{"main", "a", "ab", "b", "a.b", "a-b", "z", "m", "ma", "main2", "A", "0", "x_y", "v1.0", "zz-top", "Main", ".hotfix", ".a", "_", "a.", "..b", "1", "-x-"[1:], ".", "..", "main.lock", "a.lock", "m_", "MAIN", "mAin", "A.B", "a.tmp", "main.tmp", "a.new", "a.bak", "tmp-a", "HEAD", "HEAD", "index", "config", "refs", "heads", "objects", "logs", "ORIG_HEAD", "head"}
		if w.Hist%5 == 2 {
			// long names, some of them prefixes of each other: HEAD is then longer than 128 / 256 bytes
			q := strings.Repeat("q", 111)
			k.BranchNames = append(k.BranchNames, q, q+"r", q+"rs", q+strings.Repeat("s", 40), strings.Repeat("L", 200), strings.Repeat("L", 199)+"x", "n"+strings.Repeat("0123456789", 12))
			k.BranchNames = append(k.BranchNames[12:], "main", "a")
		}
		k.Init()
		if w.Hist%7 != 0 {
			k.Do("commit-all")
		}
		if (w.Hist == 4 || (c.Thorough() && w.Hist%400 == 4)) && w.State().Repo().HeadCommit() != "" {
			// several hundred branches: sorted lists, positions and counters beyond 255
			for i := 0; i < 262; i++ {
				k.goit("branch", fmt.Sprintf("n%03d", (i*37)%262))
			}
			// ... and beyond a thousand (created without a snapshot per command, then judged from here on)
			for i := 0; i < 800; i++ {
				w.SB.Run(c.Goit, []string{"branch", fmt.Sprintf("t%04d", (i*331)%800)}, sandbox.RunOpts{})
			}
			c.Eval(800)
			w.Invalidate()
			k.goit("branch", "t0014")
			k.goit("switch", "t0799")
			k.goit("branch", "-d", "t0000")
			k.goit("branch", "--list")
			k.goit("switch", "n255")
			k.goit("branch", "-d", "n000")
			k.goit("branch", "-d", "n261")
			k.goit("branch", "-r", "n255renamed")
			k.goit("switch", "-c", "zzz-last")
			k.goit("branch", "--list")
			k.Do("commit-all")
			k.goit("rev-parse", "n128")
			k.goit("branch", "--list")
			c.Count("scale.many-branches")
		}
		steps := c.Pick(40, 60)
		for i := 0; i < steps; i++ {
			if w.Hist%5 == 3 && (i == 10 || i == 30) && w.State().Repo().HeadCommit() != "" {
				k.TwinProbe()
			}
			k.Step()
		}
	})
}

// ---------------------------------------------------------------------------------------
// C14 — log

type C14Mon struct{}

func (C14Mon) After(w *core.World, st *core.Step) {
	if st.Kind == "goit" && st.Cmd() == "commit" && st.Exit == 0 && st.Pre.HasGoit() {
		// shadow: the message and identity each commit of this history was made with
		pre, post := st.Pre.Repo(), st.Post.Repo()
		pa := ParseArgv(st.Argv)
		if m, ok := pa.Flag("-m", "--message"); ok && pre.HeadOK {
			if X := post.Branches[pre.HeadBranch]; gitfmt.IsHex40(X) && X != pre.Branches[pre.HeadBranch] {
				name, email, _, _ := effectiveIdentity(pre)
				sh, _ := w.Shadow["c14.made"].(map[string][2]string)
				if sh == nil {
					sh = map[string][2]string{}
					w.Shadow["c14.made"] = sh
				}
				sh[X] = [2]string{m, name + " <" + email + ">"}
			}
		}
	}
	if st.Kind != "goit" || st.Cmd() != "log" || !st.Pre.HasGoit() {
		return
	}
	c := w.C
	pa := ParseArgv(st.Argv)
	if !pa.OnlyFlags("-n", "--max-count") || len(pa.Pos) > 0 {
		return
	}
	k := 5
	if v, ok := pa.Flag("-n", "--max-count"); ok {
		n, err := strconv.Atoi(v)
		if err != nil || n < 0 {
			return
		}
		k = n
	}
	r := st.Pre.Repo()
	if !r.HeadOK {
		return
	}
	hc := r.HeadCommit()
	if hc == "" {
		return // no commit yet: log refuses, nothing to compare
	}
	// chain by following parents with the independent decoder
	var chain []string
	var commits []*gitfmt.Commit
	seen := map[string]bool{}
	for id := hc; id != "" && !seen[id]; {
		cm, err := r.Commit(id)
		if err != nil {
			return
		}
		seen[id] = true
		chain = append(chain, id)
		commits = append(commits, cm)
		if len(cm.Parents) == 0 {
			break
		}
		id = cm.Parents[0]
	}
	want := min(k, len(chain))
	rel := "k<len"
	switch {
	case k == 0:
		rel = "k=0"
	case k == len(chain):
		rel = "k=len"
	case k > len(chain):
		rel = "k>len"
	}
	if _, hasN := pa.Flag("-n", "--max-count"); !hasN {
		rel = "default"
	}
	c.Class(fmt.Sprintf("C14|len%d|%s|br%d", min(len(chain), 12), rel, min(len(r.Branches), 3)))
	trig := rel
	c.Oracle("C14.count")
	if st.Exit != 0 {
		w.Fail("C14.count", "log-fails", trig, "%s exits %d on a history of %d commits: %s", st.String(), st.Exit, len(chain), clipS(firstLine(st.Stdout+st.Stderr), 160))
		return
	}
	bs := ParseLog(st.Stdout)
	if len(bs) != want {
		w.Fail("C14.count", "wrong-count", trig, "%s prints %d commits, history has %d, expected %d", st.String(), len(bs), len(chain), want)
	}
	c.Oracle("C14.ids")
	dup := map[string]bool{}
	for i, b := range bs {
		if dup[b.ID] {
			w.Fail("C14.ids", "id-twice", trig, "%s prints %s twice", st.String(), short(b.ID))
		}
		dup[b.ID] = true
		if i < len(chain) && b.ID != chain[i] {
			w.Fail("C14.ids", "wrong-order-or-id", trig, "%s: block %d is %s, the chain from HEAD has %s there", st.String(), i, short(b.ID), short(chain[i]))
			break
		}
	}
	c.Oracle("C14.fields")
	for i, b := range bs {
		if i >= len(chain) || b.ID != chain[i] {
			break
		}
		cm := commits[i]
		wantAuthor := cm.Author.Name + " <" + cm.Author.Email + ">"
		if b.Author != wantAuthor {
			w.Fail("C14.fields", "author-differs", trig, "%s: block %d Author %q, commit has %q", st.String(), i, b.Author, wantAuthor)
		}
		if b.Message != cm.Message {
			w.Fail("C14.fields", "message-differs", trig, "%s: block %d message %q, commit has %q", st.String(), i, clipS(b.Message, 60), clipS(cm.Message, 60))
		}
		if sh, _ := w.Shadow["c14.made"].(map[string][2]string); sh != nil {
			if made, ok := sh[b.ID]; ok && (b.Message != made[0] || b.Author != made[1]) {
				w.Fail("C14.fields", "not-as-committed", trig, "%s: block %d shows author %q message %q, the commit was made by %q with message %q", st.String(), i, b.Author, clipS(b.Message, 60), made[1], clipS(made[0], 60))
			}
		}
	}
	// independence: same head commit + same argv => same output, whatever happened to index/worktree/other branches
	key := "c14.out|" + strings.Join(st.Argv, "\x00") + "|" + hc
	if prev, ok := w.Shadow[key].(string); ok {
		c.Oracle("C14.independence")
		if prev != st.Stdout {
			w.Fail("C14.independence", "output-changed", trig, "%s printed something else than before although HEAD still names %s", st.String(), short(hc))
		}
	}
	w.Shadow[key] = st.Stdout
}

func runC14(c *core.Ctx) {
	n := c.Pick(400, 2500)
	c.RunHistories(n, Registry["C14"].Mons, func(w *core.World) {
		wts := map[string]int{
			"edit-new": 6, "edit-mod": 8, "edit-rm": 2, "add": 8, "rm": 1, "restore-staged": 2,
			"branch-create": 4, "branch-delete": 2, "switch": 4, "switch-c": 3, "update-ref": 1,
		}
		k := NewWalker(w, gen.NameOpts{MaxDepth: 2, N: 4}, wts)
		k.Hostile = 3
		k.BranchNames = append(k.BranchNames, "wip ", "wip", " wip", "dev ", "HEAD", "main.lock")
		k.Init()
		if w.Hist%3 == 0 {
			name, email, _ := gen.Identity(w.Rng)
			w.Goit("config", "user.name", name)
			w.Goit("config", "user.email", email)
		}
		if w.Hist == 2 || (c.Thorough() && w.Hist%400 == 2) {
			// a parent chain of several hundred commits over a few branches; counts around 255 / 256 and beyond
			k.LongHistory(262)
			for _, kv := range []int{0, 1, 9, 10, 11, 99, 100, 101, 254, 255, 256, 257, 261, 262, 263, 264, 1000, 65535, 65536} {
				k.goit("log", "-n", fmt.Sprint(kv))
			}
			k.goit("log")
		}
		length := 1 + w.Rng.IntN(c.Pick(12, 50))
		logK := func() {
			l := len(k.W.State().Repo().LogHEAD)
			_ = l
			chainLen := 0
			r := k.W.State().Repo()
			for id := r.HeadCommit(); id != ""; {
				cm, err := r.Commit(id)
				if err != nil {
					break
				}
				chainLen++
				if len(cm.Parents) == 0 {
					break
				}
				id = cm.Parents[0]
			}
			ks := []int{0, 1, chainLen - 1, chainLen, chainLen + 1, 5, 100, 2147483647, 2147483648, 4294967296, 9223372036854775806, 9223372036854775807}
			kv := ks[k.R.IntN(len(ks))]
			if kv < 0 {
				kv = 0
			}
			args := []string{"log", "-n", fmt.Sprint(kv)}
			if k.chance(25) {
				args = []string{"log"}
			}
			k.goit(args...)
			// metamorphic: disturb index / worktree / other branches, ask again
			for j := 0; j < 1+k.R.IntN(3); j++ {
				k.Step()
			}
			k.goit(args...)
		}
		if c.GoitVFS != "" && (w.Hist == 5 || (c.Thorough() && w.Hist%800 == 5)) {
			// two commits of one chain whose ids share their first seven hex digits (what listings show): with a pinned clock the
			// id of the next commit can be computed beforehand, and a message is searched that makes it collide with an ancestor
			oldBin := w.GoitBin
			w.GoitBin = c.GoitVFS
			w.Env = map[string]string{"VERIF_NOW": "1700000000"}
			k.LongHistory(60)
			w.Write("twin.txt", []byte("abbreviated ids\n"))
			k.goit("add", "twin.txt")
			wt := k.goit("write-tree")
			r := w.State().Repo()
			tree, parent := strings.TrimSpace(wt.Stdout), r.HeadCommit()
			pre := map[string]bool{}
			for id := parent; id != ""; {
				cm, err := r.Commit(id)
				if err != nil {
					break
				}
				pre[id[:7]] = true
				if len(cm.Parents) == 0 {
					break
				}
				id = cm.Parents[0]
			}
			name, email, _, _ := effectiveIdentity(r)
			sig := fmt.Sprintf("%s <%s> 1700000000 +0000", name, email)
			found := ""
			if gitfmt.IsHex40(tree) && parent != "" {
				for n := 0; n < 30_000_000; n++ {
					msg := fmt.Sprintf("release notes, build %d", n)
					id := gitfmt.ObjectID("commit", []byte(fmt.Sprintf("tree %s\nparent %s\nauthor %s\ncommitter %s\n\n%s\n", tree, parent, sig, sig, msg)))
					if pre[id[:7]] {
						found = msg
						st := k.goit("commit", "-m", msg)
						if st.Exit == 0 && w.State().Repo().HeadCommit() == id {
							c.Count("C14.abbreviated-id-twins-in-one-chain")
						} else {
							c.Count("C14.abbreviated-id-prediction-missed")
						}
						break
					}
				}
			}
			if found != "" {
				for _, kv := range []int{1, 2, 30, 60, 61, 62, 63, 100} {
					k.goit("log", "-n", fmt.Sprint(kv))
				}
				k.goit("log")
			}
			w.GoitBin = oldBin
			w.Env = nil
		}
		if c.GoitVFS != "" && (w.Hist == 7 || (c.Thorough() && w.Hist%800 == 7)) {
			// commits of ONE chain that agree in everything but their parent: a file that flips between two contents, the same
			// message, the same identity and (pinned clock) the same second; each of them is a commit of its own in the listing
			oldBin := w.GoitBin
			w.GoitBin = c.GoitVFS
			w.Env = map[string]string{"VERIF_NOW": "1700000000"}
			for i := 0; i < 5; i++ {
				w.Write("flip.txt", []byte([]string{"one\n", "two\n"}[i%2]))
				k.goit("add", "flip.txt")
				k.goit("commit", "-m", "same")
			}
			for _, kv := range []int{1, 2, 3, 4, 5, 6, 7, 100} {
				k.goit("log", "-n", fmt.Sprint(kv))
			}
			k.goit("log")
			c.Count("C14.commits-equal-but-for-parent")
			w.GoitBin = oldBin
			w.Env = nil
		}
		clockSteps := c.GoitVFS != "" && w.Hist%6 == 4
		if clockSteps {
			// the clock of the machine is not monotone (a step back after a time correction, another machine): commits are
			// then dated earlier than their ancestors, or all in the same second; the order of log is the parent chain
			w.GoitBin = c.GoitVFS
			c.Count("C14.histories-with-clock-steps")
		}
		for i := 0; i < length; i++ {
			if clockSteps {
				w.Env = map[string]string{"VERIF_NOW": fmt.Sprint(1_700_000_000 + int64(k.R.IntN(7)-3)*3600*int64(k.R.IntN(3)))}
			}
			w.Write(k.freshPath(), k.content())
			k.AddAllTracked()
			msg := fmt.Sprintf("c%d", i)
			if k.chance(25) {
				msg = fmt.Sprintf("c%d subject\n\nbody of %d\nsecond body line", i, i)
			} else if k.chance(40) {
				// every message class of the quantifiers (tabs, %, blank lines, long lines, non-ASCII ...)
				m, mc := gen.Message(k.R, i)
				if !strings.Contains(m, "\ncommit ") {
					msg = m
					c.Class("C14.msg|" + mc)
				}
			}
			k.goit("commit", "-m", msg)
			if k.chance(30) {
				logK()
			}
			if i > 1 && k.chance(12) {
				// reset to an earlier commit, then continue committing (diverging history)
				k.resetWithReflog(0)
			}
			if k.chance(10) {
				k.Do("switch-c")
			}
		}
		logK()
		logK()
	})
}

// ---------------------------------------------------------------------------------------
// C20 — configuration round trip and precedence

type C20Mon struct{}

func cfgCopy(m map[string]map[string]string) map[string]map[string]string {
	o := map[string]map[string]string{}
	for s, kv := range m {
		o[s] = map[string]string{}
		for k, v := range kv {
			o[s][k] = v
		}
	}
	return o
}

func cfgEqual(a, b map[string]map[string]string) (bool, string) {
	for s, kv := range a {
		for k, v := range kv {
			if bv, ok := b[s][k]; !ok {
				return false, fmt.Sprintf("[%s] %s lost (was %q)", s, k, v)
			} else if bv != v {
				return false, fmt.Sprintf("[%s] %s = %q, expected %q", s, k, bv, v)
			}
		}
	}
	for s, kv := range b {
		for k, v := range kv {
			if _, ok := a[s][k]; !ok {
				return false, fmt.Sprintf("[%s] %s = %q appeared", s, k, v)
			}
		}
	}
	return true, ""
}

func valueClass(v string) string {
	var cs []string
	for _, t := range []struct{ ch, name string }{{"=", "equals"}, {"[", "lbracket"}, {"]", "rbracket"}, {"#", "hash"}, {"\"", "dquote"}, {"'", "squote"}, {" ", "space"}, {";", "semicolon"}} {
		if strings.Contains(v, t.ch) {
			cs = append(cs, t.name)
		}
	}
	for _, r := range v {
		if r > 127 {
			cs = append(cs, "non-ascii")
			break
		}
	}
	if len(v) > 4000 {
		cs = append(cs, "longer-than-4KiB")
	}
	if len(cs) == 0 {
		return "plain"
	}
	return strings.Join(cs, "+")
}

func (C20Mon) After(w *core.World, st *core.Step) {
	if st.Kind != "goit" || !st.Pre.HasGoit() {
		return
	}
	c := w.C
	pre, post := st.Pre.Repo(), st.Post.Repo()
	switch st.Cmd() {
	case "config":
		pa := ParseArgv(st.Argv)
		if !pa.OnlyFlags("--global") || len(pa.Pos) != 2 {
			return
		}
		_, global := pa.Flag("--global")
		sk := strings.Split(pa.Pos[0], ".")
		if len(sk) != 2 || sk[0] == "" || sk[1] == "" || strings.Contains(sk[1], "=") || strings.Contains(pa.Pos[0], "\n") {
			return // names the file format cannot hold: see the C20.unrepresentable workload
		}
		val := pa.Pos[1]
		if st.Exit != 0 {
			// a value of printable characters with inner single spaces must be accepted
			printable := val != "" && strings.TrimSpace(val) == val && !strings.Contains(val, "  ")
			for _, r := range val {
				if !unicode.IsPrint(r) {
					printable = false
				}
			}
			if printable && pre.LocalErr == nil && pre.GlobalErr == nil {
				c.Oracle("C20.file-roundtrip")
				w.Fail("C20.file-roundtrip", "valid-value-refused", "value:"+valueClass(val), "%s was refused although the value is made of printable characters: %s", st.String(), clipS(firstLine(st.Stdout+st.Stderr), 160))
			}
			return
		}
		if pre.LocalErr != nil || pre.GlobalErr != nil {
			return
		}
		wantL, wantG := cfgCopy(pre.Local), cfgCopy(pre.Global)
		tgt := wantL
		if global {
			tgt = wantG
		}
		if tgt[sk[0]] == nil {
			tgt[sk[0]] = map[string]string{}
		}
		tgt[sk[0]][sk[1]] = val
		trig := "value:" + valueClass(val)
		c.Class(fmt.Sprintf("C20.write|global=%v|%s", global, valueClass(val)))
		c.Oracle("C20.file-roundtrip")
		if post.LocalErr != nil || post.GlobalErr != nil {
			w.Fail("C20.file-roundtrip", "config-unparsable", trig, "after %s a config file does not parse: %v %v", st.String(), post.LocalErr, post.GlobalErr)
			return
		}
		gotSame := post.Local
		want := wantL
		if global {
			gotSame, want = post.Global, wantG
		}
		if gv := gotSame[sk[0]][sk[1]]; gv != val {
			w.Fail("C20.file-roundtrip", "value-altered", trig, "after %s the file holds %s = %q", st.String(), pa.Pos[0], gv)
		}
		c.Oracle("C20.lost-key")
		if ok, why := cfgEqual(want, gotSame); !ok {
			w.Fail("C20.lost-key", "other-key-changed", trig, "after %s: %s", st.String(), why)
		}
		other, otherWant := post.Global, wantG
		if global {
			other, otherWant = post.Local, wantL
		}
		if ok, why := cfgEqual(otherWant, other); !ok {
			w.Fail("C20.lost-key", "other-file-changed", trig, "after %s the other config file changed: %s", st.String(), why)
		}
	case "commit":
		pa := ParseArgv(st.Argv)
		if _, hasMsg := pa.Flag("-m", "--message"); !hasMsg || len(pa.Pos) > 0 {
			return
		}
		if pre.LocalErr != nil || pre.GlobalErr != nil {
			return
		}
		name, email, nameSet, emailSet := effectiveIdentity(pre)
		combo := func(k string) string {
			_, l := pre.Local["user"][k]
			_, g := pre.Global["user"][k]
			return fmt.Sprintf("%s:l%vg%v", k, l, g)
		}
		c.Class("C20.commit|" + combo("name") + "|" + combo("email"))
		if !nameSet || !emailSet {
			c.Oracle("C20.commit-refusal")
			if st.Exit == 0 {
				w.Fail("C20.commit-refusal", "commit-without-identity", combo("name")+"|"+combo("email"), "%s succeeded although name set=%v email set=%v", st.String(), nameSet, emailSet)
			}
			c.Oracle("C20.refusal-side-effects")
			if same, d := sameSandbox(st.Pre, st.Post); !same {
				w.Fail("C20.refusal-side-effects", "state-changed", combo("name")+"|"+combo("email"), "%s without a complete identity changed %v", st.String(), firstN(d, 5))
			}
			return
		}
		if st.Exit != 0 {
			return
		}
		c.Oracle("C20.effective-identity")
		X := post.Branches[post.HeadBranch]
		cm, err := post.Commit(X)
		if err != nil {
			return
		}
		trig := "name:" + valueClass(name) + "|" + combo("name") + "|" + combo("email")
		if cm.Author.Name != name || cm.Author.Email != email || cm.Committer.Name != name || cm.Committer.Email != email {
			w.Fail("C20.effective-identity", "identity-differs", trig, "commit %s records author %q <%s>, effective configuration is %q <%s>", short(X), cm.Author.Name, cm.Author.Email, name, email)
		}
	}
}

var c20Values = []string{
	"plain", "two words", "a=b", "a=b=c", "=lead", "trail=", "[x]", "[", "]", "#hash", "a #b", "\"quoted\"", "it's", "é ü", "日本 語", "a;b", "k = v", "x[0]=1", "Łódź", "привет мир", "😀", "ÀÁÂ", "C:/path/to", "100%", "a,b", "(paren)", "{brace}", "~tilde", "!bang", "@at", "$var", "^caret", "&amp", "*star", "+plus", "|pipe", "<lt", ">gt", "?q", "`tick`",
}
var c20Names = []string{"100% sure Jun", "50%% off", "%s %d %v", "Ren\ufffde", "Łukasz", "Пётр", "Àgnes", "dev 😀", "Alice", "Alice B", "A=B", "a=b=c", "[bot]", "#1 dev", "O'Neil", "\"Q\"", "José Núñez", "山田 太郎", "x]y", "Dr. X (PhD)", "a>b"}
var c20Emails = []string{"a@example.com", "first.last@sub.example.org", "x_y+tag@a-b.co", "u@d.io"}

// c20Long: a printable value of 4..10 KiB with single inner blanks, '=' and non-ASCII in its tail.
func c20Long(r *rand.Rand) string {
	n := []int{4070, 4085, 4096, 4200, 8192, 10000, 70000, 70000}[r.IntN(8)]
	var b strings.Builder
	for b.Len() < n {
		b.WriteString([]string{"abcdefghij", "Zz", "x=y", "é", "w w", "0123456789"}[r.IntN(6)])
	}
	return strings.TrimSpace(b.String()) + "=end"
}

// otherFilesystemDir makes a scratch directory on a file system different from the one the sandboxes live on
// ("" if this machine offers none). The caller removes it.
func otherFilesystemDir(c *core.Ctx) string {
	var here syscall.Stat_t
	if syscall.Stat(c.Scratch, &here) != nil {
		return ""
	}
	for _, cand := range []string{os.TempDir(), "/var/tmp", "/tmp", "/run", "/dev/shm"} {
		var st syscall.Stat_t
		if syscall.Stat(cand, &st) != nil || st.Dev == here.Dev {
			continue
		}
		if d, err := os.MkdirTemp(cand, "verif-c20-home-"); err == nil {
			return d
		}
	}
	return ""
}

// c20HomeElsewhere: the home directory (global settings) on another file system than the repository. Nothing in
// the statement depends on where the two files live.
func c20HomeElsewhere(c *core.Ctx) {
	home := otherFilesystemDir(c)
	if home == "" {
		c.Count("C20.home-on-other-filesystem-unavailable")
		return
	}
	defer os.RemoveAll(home)
	c.RunHistoriesAt(5_000_000, 2, func() []core.Monitor { return nil }, func(w *core.World) {
		h := filepath.Join(home, fmt.Sprint("h", w.Hist))
		os.MkdirAll(h, 0o777)
		w.Env = map[string]string{"HOME": h}
		trig := "home-on-another-filesystem"
		w.Goit("init")
		name, email := "Global G", "g@example.com"
		sets := [][]string{{"config", "--global", "user.name", name}, {"config", "--global", "user.email", email}, {"config", "--global", "user.name", name}}
		if w.Hist%2 == 1 {
			sets = append(sets, []string{"config", "user.email", "local@example.com"})
			email = "local@example.com"
		}
		for _, a := range sets {
			c.Oracle("C20.home-elsewhere")
			if st := w.Goit(a...); st.Exit != 0 {
				w.Fail("C20.home-elsewhere", "valid-value-refused", trig, "%s exits %d with the home directory on another file system than the repository: %s", st.String(), st.Exit, clipS(firstLine(st.Stdout+st.Stderr), 200))
				return
			}
		}
		if b, err := os.ReadFile(filepath.Join(h, ".goitconfig")); err != nil || !strings.Contains(string(b), "name = "+name) {
			w.Fail("C20.home-elsewhere", "global-file-differs", trig, "after the global writes $HOME/.goitconfig holds %q (%v)", clipS(string(b), 120), err)
		}
		if left, _ := filepath.Glob(filepath.Join(h, "*tmp*")); len(left) > 0 {
			w.Fail("C20.home-elsewhere", "temporary-file-left", trig, "temporary files left in the home directory: %v", left)
		}
		w.Write("f.txt", []byte("x\n"))
		w.Goit("add", "f.txt")
		c.Oracle("C20.home-elsewhere")
		if st := w.Goit("commit", "-m", "with the global identity"); st.Exit != 0 {
			w.Fail("C20.home-elsewhere", "commit-refused-with-identity", trig, "%s exits %d although name and e-mail are configured: %s", st.String(), st.Exit, clipS(firstLine(st.Stdout+st.Stderr), 200))
			return
		}
		if st := w.Goit("log"); !strings.Contains(st.Stdout, "Author: "+name+" <"+email+">") {
			w.Fail("C20.home-elsewhere", "identity-differs", trig, "log shows %q, configured: %s <%s>", clipS(st.Stdout, 160), name, email)
		}
	})
}

func runC20(c *core.Ctx) {
	RunIn(c, "", 8, 2048)
	c20HomeElsewhere(c)
	n := c.Pick(500, 4000)
	c.RunHistories(n, Registry["C20"].Mons, func(w *core.World) {
		k := NewWalker(w, gen.NameOpts{MaxDepth: 1, N: 3}, nil)
		w.Goit("init")
		r := w.Rng
		secs := []string{"user", "core", "alias", "x-y"}
		if w.Hist%5 == 2 {
			// section names that begin or end with the characters that frame a section header
			secs = append(secs, "[user]", "x]", "[y", "a[1]b", "]")
		}
		keys := []string{"name", "email", "editor", "k1", "k_2"}
		if w.Hist%5 == 2 || w.Hist%5 == 3 {
			// key names that begin or end with those characters; together with a value that ends in ']' the line of the
			// setting looks like a section header but for its indentation
			keys = append(keys, "[tag", "k]", "[k]")
			w.Goit("config", "user.[tag", "v1]")
			w.Goit("config", "core.editor", "vi")
			w.Goit("config", "--global", "core.[g", "[x]")
			w.Goit("config", "--global", "core.pager", "less")
		}
		nw := 1 + r.IntN(25)
		// which identity parts get configured, and where
		plan := r.IntN(16) // bit0 local name, bit1 global name, bit2 local email, bit3 global email
		if w.Hist%3 == 0 {
			plan = 15 - r.IntN(3)
		}
		commitTry := func() {
			w.Write(k.freshPath(), k.content())
			k.AddAllTracked()
			k.goit("commit", "-m", k.message())
		}
		if w.Hist%6 == 4 {
			// names and values the file format cannot hold (an empty section or key, '=' in a key, a line feed): refusing
			// them is fine, writing them is fine if they read back -- a repository that no command can open any more,
			// or a key that turns into another key, is not
			w.Goit("config", "core.before", "kept")
			for _, a := range [][]string{{".k", "v"}, {"s.", "v"}, {".", "v"}, {"a.b=c", "v"}, {"user.name", "x\ny"}, {"a\nb.c", "v"}, {"--global", ".g", "v"}, {"--global", "g.k", "x\n[user]"}} {
				st := w.Goit(append([]string{"config"}, a...)...)
				after := w.Goit("config", "core.after", "1")
				ro := w.Goit("ls-files")
				c.Oracle("C20.unrepresentable")
				c.Class("C20.unrepresentable|" + strings.ReplaceAll(a[len(a)-2], "\n", "<LF>") + fmt.Sprintf("|exit%d", st.Exit))
				trig := "unrepresentable:" + strings.ReplaceAll(a[len(a)-2], "\n", "<LF>")
				if ro.Exit != 0 || after.Exit != 0 {
					w.Fail("C20.unrepresentable", "repository-unusable-after-config", trig, "%s (exit %d); afterwards `config core.after 1` exits %d and `ls-files` exits %d: %s", st.String(), st.Exit, after.Exit, ro.Exit, clipS(firstLine(ro.Stdout+ro.Stderr+after.Stderr), 160))
					break
				}
				if raw := string(w.State().GoitFiles()["config"]); !strings.Contains(raw, "before = kept") {
					w.Fail("C20.unrepresentable", "other-key-lost", trig, "%s (exit %d): core.before is gone from the local file: %q", st.String(), st.Exit, clipS(raw, 200))
					break
				}
				if a[0] == "a.b=c" && st.Exit == 0 {
					if raw := string(w.State().GoitFiles()["config"]); !strings.Contains(raw, "b=c = v") {
						w.Fail("C20.unrepresentable", "key-altered", trig, "%s exits 0; after the next write the local file holds %q", st.String(), clipS(raw, 200))
					}
				}
			}
		}
		if w.Hist == 5 || (c.Thorough() && w.Hist%400 == 5) {
			// one file beyond 1 MiB: ten values of 125 KB under different keys (a single argument may be 128 KiB long),
			// then one more write: every value must still be there, complete
			for i := 0; i < 10; i++ {
				k.goit("config", fmt.Sprintf("big.k%d", i), strings.Repeat(string(rune('a'+i)), 125000))
			}
			k.goit("config", "core.editor", "vi")
			k.goit("config", "user.name", "After The Big File")
			k.goit("config", "user.email", "big@example.com")
			commitTry()
			c.Count("scale.config-file-beyond-1MiB")
		}
		if w.Hist == 3 || (c.Thorough() && w.Hist%400 == 3) {
			// several hundred keys in a few sections, then rewrites of early ones: no key may be lost on the way
			for i := 0; i < 270; i++ {
				sec := []string{"s1", "s2", "user", "core"}[i%4]
				args := []string{"config", fmt.Sprintf("%s.key%03d", sec, i), fmt.Sprintf("value %d", i)}
				if i%9 == 0 {
					args = append([]string{"config", "--global"}, args[1:]...)
				}
				w.Goit(args...)
			}
			w.Goit("config", "s1.key000", "rewritten")
			w.Goit("config", "core.key255", "rewritten")
			w.Goit("config", "user.name", "After Many")
			w.Goit("config", "user.email", "many@example.org")
			commitTry()
			c.Count("scale.many-config-keys")
		}
		for i := 0; i < nw; i++ {
			sec, key := secs[r.IntN(len(secs))], keys[r.IntN(len(keys))]
			val := c20Values[r.IntN(len(c20Values))]
			if r.IntN(30) == 0 {
				val = c20Long(r) // scale: a line of the file longer than any 4 KiB buffer
			}
			global := r.IntN(3) == 0
			if sec == "user" && (key == "name" || key == "email") {
				bit := 0
				if key == "email" {
					bit = 2
					val = c20Emails[r.IntN(len(c20Emails))]
				} else {
					val = c20Names[r.IntN(len(c20Names))]
					if r.IntN(30) == 0 {
						val = c20Long(r)
					}
				}
				if global {
					bit++
				}
				if plan&(1<<bit) == 0 {
					continue
				}
			}
			if r.IntN(12) == 0 {
				// the flag with an explicit value, in either position: "=false" is a local write
				form := []string{"--global=true", "--global=1", "--global=false", "--global=0", "--global=f"}[r.IntN(5)]
				global = form == "--global=true" || form == "--global=1"
				if sec == "user" && (key == "name" || key == "email") {
					continue // the identity plan above was made for the other scope
				}
				if r.IntN(2) == 0 {
					w.Goit("config", form, sec+"."+key, val)
				} else {
					w.Goit("config", sec+"."+key, val, form)
				}
				continue
			}
			if global {
				w.Goit("config", "--global", sec+"."+key, val)
			} else {
				w.Goit("config", sec+"."+key, val)
			}
			if r.IntN(5) == 0 {
				commitTry()
			}
		}
		// make sure the planned identity parts are really set, then try to commit
		for bit, spec := range []struct {
			key    string
			global bool
		}{{"name", false}, {"name", true}, {"email", false}, {"email", true}} {
			if plan&(1<<bit) == 0 {
				continue
			}
			val := c20Names[r.IntN(len(c20Names))]
			if spec.key == "email" {
				val = c20Emails[r.IntN(len(c20Emails))]
			}
			if spec.global {
				w.Goit("config", "--global", "user."+spec.key, val)
			} else {
				w.Goit("config", "user."+spec.key, val)
			}
			commitTry()
		}
		commitTry()
		w.Goit("config", pickS(r, secs)+"."+pickS(r, keys), pickS(r, c20Values))
		commitTry()
	})
}

func init() {
	register(&Prop{ID: "C10", Level: "exploration",
		Rule:   "(a) breadth-first exploration of the REAL binary as an explicit state space from {fresh repo, one commit on main}: every action over the name alphabet {main,a,ab,b,a.b,a-b,.a} (branch n / -d n / -r n, switch n, switch -c n, update-ref refs/heads/n c for up to 3 commits, macro commit, macro reset --soft HEAD@{1}, branch --list, rev-parse HEAD) applied to every distinct abstract state reached, restoring the concrete sandbox snapshot first; depth 2 (quick) / 4 or 160k transitions (thorough); (b) seeded random walks of 40-60 steps over 16 branch names; oracle: a reference state machine gives accept-with-effect or refuse-without-change for each (state, action), views branch --list / rev-parse must report the stored state; distinct = (action, refuse?, abstract state) triples",
		Mons:   func() []core.Monitor { return []core.Monitor{C10Mon{}} },
		Run:    runC10,
		Floors: []core.Floor{{Key: "C10.transition", Min: 800}, {Key: "C10.refusal-frame", Min: 400}, {Key: "C10.list-view", Min: 30}, {Key: "C10.revparse-view", Min: 30}},
	})
	register(&Prop{ID: "C14", Level: "exploration",
		Rule:   "seeded histories of length 1-12 (quick) / 1-50 (thorough) on 1-3 branches with resets to earlier commits followed by new commits; `log -n k` for k in {0,1,len-1,len,len+1,5,100} and without -n; the chain is recomputed by following parents with the independent commit decoder; blocks must be the first min(k,len) commits, each once, with their own id/author/message; metamorphic: after staging/unstaging, editing, creating/moving/deleting other branches the same command prints the same text; distinct = (len, k-relation, #branches)",
		Mons:   func() []core.Monitor { return []core.Monitor{C14Mon{}} },
		Run:    runC14,
		Floors: []core.Floor{{Key: "C14.count", Min: 300}, {Key: "C14.independence", Min: 100}},
	})
	register(&Prop{ID: "C20", Level: "exploration", NeedIn: true,
		Rule:   "seeded sequences of 1-25 local/global `config s.k v` writes over 4 sections x 5 keys with values containing '=', 'a=b=c', '[', ']', '#', quotes, non-ASCII, inner spaces, punctuation; a random plan decides which of (local name, global name, local e-mail, global e-mail) get configured; after every write both config files are parsed independently and compared with the model maps (no other key or section lost or altered); in-process: sequences of Config.Add/Write through the real writer are re-read by a fresh NewConfig and compared with the model (effective name/e-mail, IsUserSet); every commit attempt is checked for refusal-without-side-effects (identity incomplete) or for the effective identity (local over global per key) in the stored author/committer lines; distinct = (scope, value class) and (name/e-mail presence pattern) classes",
		Mons:   func() []core.Monitor { return []core.Monitor{C20Mon{}} },
		Run:    runC20,
		Floors: []core.Floor{{Key: "C20.file-roundtrip", Min: 800}, {Key: "C20.commit-refusal", Min: 100}, {Key: "C20.effective-identity", Min: 100}},
	})
}
