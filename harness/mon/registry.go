package mon

import (
	"verif/harness/core"
)

type Prop struct {
	ID     string
	Level  string
	Rule   string
	Assume []string
	// Mons returns fresh monitor instances for one history (used by Run and by replay).
	Mons func() []core.Monitor
	Run  func(c *core.Ctx)
	// Replay handles "custom" witnesses; history witnesses are replayed generically.
	Replay func(c *core.Ctx, w *core.Witness) bool
	Floors []core.Floor
	// ThoroughFloors are demanded in addition when the tier is thorough.
	ThoroughFloors []core.Floor
	NeedVFS        bool
	NeedIn         bool
}

var Registry = map[string]*Prop{}

func register(p *Prop) { Registry[p.ID] = p }

var commonAssume = []string{
	"reach is the generated workload: the histories, names, contents and fault positions this run executed",
	"trusted base: Go std (os, compress/zlib, crypto/sha1) and the independent decoders in harness/gitfmt",
	"commands are invoked from the repository root, one real goit process per command",
	"generated file names exclude NUL, newline, CR, TAB, leading '-', '.'/'..' components; names with blanks at their ends only in C05; symbolic links only in C03 (as unreadable entries)",
}

func CommonAssume() []string { return commonAssume }
