package mon

import (
	"bytes"
	"fmt"
	"os"
	"os/exec"
	"path/filepath"
	"strings"

	"verif/harness/core"
	"verif/harness/gen"
	"verif/harness/gitfmt"
	"verif/harness/sandbox"
)

type C01Mon struct{}

// The CLI oracles of C01 are evaluated by the driver (they need the bytes it generated).
func (C01Mon) After(w *core.World, st *core.Step) {}

func runC01(c *core.Ctx) {
	shards := c.Pick(8, 16)
	RunIn(c, "", shards, 4096)
	// CLI level
	n := c.Pick(200, 1200)
	maxSize := 1 << 20
	if c.Thorough() {
		maxSize = 4 << 20
	}
	_, gitErr := os.Stat("/usr/bin/git")
	c.RunHistories(n/4+1, Registry["C01"].Mons, func(w *core.World) {
		k := NewWalker(w, gen.NameOpts{Space: true, MaxDepth: 2, N: 4}, nil)
		k.Init()
		if idTwins(); twinBlobs && w.Hist%8 == 1 {
			// two different contents whose ids share their first 32 bits, stored by ONE command, in both orders
			w.Write("tw/a.txt", twinBlobA)
			w.Write("tw/b.txt", twinBlobB)
			w.Write("tw/c.txt", []byte("third\n"))
			if w.Hist%16 == 1 {
				w.Goit("add", "tw/b.txt", "tw/c.txt", "tw/a.txt")
			} else {
				w.Goit("add", "tw")
			}
			c.Oracle("C01.cli")
			for _, body := range [][]byte{twinBlobA, twinBlobB} {
				id := gitfmt.BlobID(body)
				st := w.Goit("cat-file", "-p", id)
				if st.Exit != 0 || !bytes.Equal(st.Res.Stdout, append(append([]byte{}, body...), '\n')) {
					w.Fail("C01.cli", "cat-file-bytes", "blob|id-prefix-twins", "two contents whose ids share 8 hex digits (%s, %s) were added by one command; cat-file -p %s exits %d with %d bytes", short(gitfmt.BlobID(twinBlobA)), short(gitfmt.BlobID(twinBlobB)), id, st.Exit, len(st.Res.Stdout))
				}
			}
			c.Class("cli|blob|id-prefix-twins")
		}
		var names []string
		var ids []string
		var bodies [][]byte
		defer func() {
			// several files in one invocation: one id per argument, in order, the same file twice gives the same id
			if len(names) >= 2 {
				args := append([]string{"hash-object"}, names...)
				args = append(args, names[0])
				st := w.Goit(args...)
				c.Oracle("C01.cli")
				want := strings.Join(append(append([]string{}, ids...), ids[0]), "\n") + "\n"
				if st.Exit != 0 || st.Stdout != want {
					w.Fail("C01.cli", "hash-object-multi-differs", "blob|several-arguments", "hash-object with %d arguments prints %q, expected %q", len(args)-1, clipS(st.Stdout, 200), clipS(want, 200))
				}
			}
		}()
		for j := 0; j < 4; j++ {
			body, class := gen.Content(w.Rng, maxSize)
			if j == 3 {
				// every history: one content that begins or ends with a mark (BOM, shebang, magic number, white space)
				body, class = gen.MagicContent(w.Hist), "magic-prefix"
			}
			name := fmt.Sprintf("f%d %s.bin", j, class)
			trig := "blob|" + class
			want := gitfmt.BlobID(body)
			if len(body) > 0 {
				c.Class("cli|blob|" + class + "|" + sizeBucketM(len(body)))
			}
			w.Write(name, body)
			names = append(names, name)
			ids = append(ids, want)
			bodies = append(bodies, body)
			c.Oracle("C01.cli")
			st := w.Goit("hash-object", name)
			if st.Exit != 0 || strings.TrimSpace(st.Stdout) != want {
				w.Fail("C01.cli", "hash-object-differs", trig, "hash-object of %d bytes (%s) prints %q, expected %s", len(body), class, clipS(st.Stdout, 60), want)
			}
			if same, d := sameSandbox(st.Pre, st.Post); !same {
				w.Fail("C01.cli", "hash-object-writes", trig, "hash-object changed %v", firstN(d, 4))
			}
			if j == 1 && c.GoitVFS != "" {
				// "storing an object again never damages what is stored": first the store is interrupted at every one of its
				// file-system modifications (kill injected by the shim), then the same content is stored again by a healthy run
				pre := w.State()
				for kpos := 1; kpos <= 40; kpos++ {
					w.SB.Restore(pre)
					res := w.SB.Run(c.GoitVFS, []string{"add", name}, sandbox.RunOpts{ExtraEnv: map[string]string{"VERIF_FAULT": fmt.Sprintf("c:%d", kpos), "VERIF_NOW": "1700000000"}})
					c.Eval(1)
					if res.Signal != "killed" {
						break // fewer than kpos modifications: the command ran to its end
					}
					c.Oracle("C01.store-after-interrupted-store")
					c.Class(fmt.Sprintf("interrupted-store|k%d|%s", kpos, sizeBucketM(len(body))))
					r2 := w.SB.Run(c.Goit, []string{"add", name}, sandbox.RunOpts{})
					r3 := w.SB.Run(c.Goit, []string{"cat-file", "-p", want}, sandbox.RunOpts{})
					c.Eval(2)
					sn := w.SB.Snapshot()
					o, ok := sn.Repo().Obj(want)
					switch {
					case r2.Exit != 0:
						w.Fail("C01.store-after-interrupted-store", "second-store-refused", trig, "`add` killed before its modification %d, then `add` of the same %d bytes exits %d: %s", kpos, len(body), r2.Exit, clipS(firstLine(string(r2.Stdout)+string(r2.Stderr)), 160))
					case !ok || o.Kind != "blob" || !bytes.Equal(o.Body, body):
						w.Fail("C01.store-after-interrupted-store", "object-missing-after-second-store", trig, "`add` killed before its modification %d, then `add` of the same %d bytes exits 0, but objects/%s does not hold them", kpos, len(body), want)
					case r3.Exit != 0 || !bytes.Equal(r3.Stdout, append(append([]byte{}, body...), '\n')):
						w.Fail("C01.store-after-interrupted-store", "cat-file-differs-after-second-store", trig, "`add` killed before its modification %d, then `add` again: cat-file -p %s exits %d with %d bytes", kpos, short(want), r3.Exit, len(r3.Stdout))
					}
				}
				// the same with an error return instead of a kill: a store that reports success must have stored the bytes,
				// and a store that failed must not prevent (or fake) a later one
				for kpos := 1; kpos <= 60; kpos++ {
					w.SB.Restore(pre)
					oplog := filepath.Join(w.SB.Root, "oplog.c01")
					os.Remove(oplog)
					res := w.SB.Run(c.GoitVFS, []string{"add", name}, sandbox.RunOpts{ExtraEnv: map[string]string{"VERIF_FAULT": fmt.Sprintf("e:%d:ENOSPC", kpos), "VERIF_NOW": "1700000000", "VERIF_OPLOG": oplog}})
					c.Eval(1)
					logb, _ := os.ReadFile(oplog)
					os.Remove(oplog)
					if ops := parseOplog(logb); len(ops) == 0 || ops[len(ops)-1].N < kpos {
						break // the command performs fewer than kpos operations: no fault was injected
					}
					c.Oracle("C01.store-after-failed-store")
					c.Class(fmt.Sprintf("failed-store|e%d|exit%d|%s", kpos, res.Exit, sizeBucketM(len(body))))
					sn := w.SB.Snapshot()
					if res.Exit == 0 {
						if m, ok := sn.Repo().Idx(); ok && m[name] == want {
							if o, ok := sn.Repo().Obj(want); !ok || !bytes.Equal(o.Body, body) {
								w.Fail("C01.store-after-failed-store", "success-without-object", trig, "`add` with ENOSPC injected at its operation %d exits 0 and stages %s, but objects/%s does not hold the file's %d bytes", kpos, short(want), want, len(body))
								continue
							}
						}
					}
					r2 := w.SB.Run(c.Goit, []string{"add", name}, sandbox.RunOpts{})
					r3 := w.SB.Run(c.Goit, []string{"cat-file", "-p", want}, sandbox.RunOpts{})
					c.Eval(2)
					if r2.Exit == 0 && (r3.Exit != 0 || !bytes.Equal(r3.Stdout, append(append([]byte{}, body...), '\n'))) {
						w.Fail("C01.store-after-failed-store", "object-missing-after-second-store", trig, "`add` failed (exit %d) with ENOSPC at its operation %d; `add` again exits 0 but cat-file -p %s exits %d with %d bytes instead of the file's %d", res.Exit, kpos, short(want), r3.Exit, len(r3.Stdout), len(body))
					}
				}
				w.SB.Restore(pre)
				w.Invalidate()
			}
			st = w.Goit("add", name)
			post := st.Post.Repo()
			if m, ok := post.Idx(); !ok || m[name] != want {
				w.Fail("C01.cli", "staged-id-differs", trig, "after add, %q is staged as %s, expected %s", name, m[name], want)
			}
			if o, ok := post.Obj(want); !ok || o.Kind != "blob" || !bytes.Equal(o.Body, body) {
				w.Fail("C01.cli", "stored-blob-differs", trig, "after add, objects/%s does not decode to the file's %d bytes", want, len(body))
			}
			st = w.Goit("cat-file", "-t", want)
			if st.Exit != 0 || st.Stdout != "blob\n" {
				w.Fail("C01.cli", "cat-file-type", trig, "cat-file -t %s prints %q (exit %d)", short(want), clipS(st.Stdout, 40), st.Exit)
			}
			st = w.Goit("cat-file", "-p", want)
			if st.Exit != 0 || !bytes.Equal(st.Res.Stdout, append(append([]byte{}, body...), '\n')) {
				w.Fail("C01.cli", "cat-file-bytes", trig, "cat-file -p %s does not print the %d stored bytes plus one newline (got %d bytes, exit %d)", short(want), len(body), len(st.Res.Stdout), st.Exit)
			}
			// storing again (re-add after touching) never changes the stored object
			w.Edit("touch", name, nil)
			st = w.Goit("add", name)
			if o, ok := st.Post.Repo().Obj(want); !ok || !bytes.Equal(o.Body, body) {
				w.Fail("C01.restore-idempotent", "content-changed-by-restore", trig, "re-adding changed objects/%s", want)
			}
			if gitErr == nil && j == 0 {
				c.Oracle("C01.git-xcheck")
				out, err := exec.Command("/usr/bin/git", "hash-object", "--no-filters", filepath.Join(w.SB.W(), name)).Output()
				if err == nil && strings.TrimSpace(string(out)) != want {
					w.Fail("C01.git-xcheck", "git-disagrees", trig, "git hash-object says %s, harness/goit say %s", strings.TrimSpace(string(out)), want)
				}
			}
		}
		if w.Hist%2 == 0 && len(names) > 0 {
			// a path that is a symbolic link to a regular file: the content is what lies behind the link (whose own text
			// is much shorter or much longer than that), named directly and reached through a directory
			t := 0
			for i := range bodies {
				if len(bodies[i]) > len(bodies[t]) {
					t = i
				}
			}
			trig := "blob|through-symlink"
			c.Class("cli|blob|through-symlink|" + sizeBucketM(len(bodies[t])))
			w.Symlink("a link.lnk", names[t])
			w.Symlink("lnk.d/"+strings.Repeat("inner-", 20)+".lnk", "../"+names[t])
			c.Oracle("C01.cli")
			st := w.Goit("hash-object", "a link.lnk")
			if st.Exit != 0 || strings.TrimSpace(st.Stdout) != ids[t] {
				w.Fail("C01.cli", "hash-object-differs", trig, "hash-object of a link to a file of %d bytes prints %q, expected %s", len(bodies[t]), clipS(st.Stdout, 60), ids[t])
			}
			st = w.Goit("add", "a link.lnk", "lnk.d")
			post := st.Post.Repo()
			if m, ok := post.Idx(); ok && st.Exit == 0 {
				for p, id := range m {
					if (p == "a link.lnk" || strings.HasPrefix(p, "lnk.d/")) && id != ids[t] {
						w.Fail("C01.cli", "staged-id-differs", trig, "after add, the link %q to a file of %d bytes is staged as %s; hash-object prints %s", p, len(bodies[t]), id, ids[t])
					}
				}
			}
			if o, ok := post.Obj(ids[t]); !ok || !bytes.Equal(o.Body, bodies[t]) {
				w.Fail("C01.cli", "stored-blob-differs", trig, "after adding links to it, objects/%s does not decode to the file's %d bytes", ids[t], len(bodies[t]))
			}
		}
	})
}

func sizeBucketM(n int) string {
	switch {
	case n < 64:
		return "<64"
	case n < 4096:
		return "<4K"
	case n < 65536:
		return "<64K"
	case n < 1<<20:
		return "<1M"
	}
	return ">=1M"
}

func init() {
	register(&Prop{ID: "C01", Level: "exploration", NeedIn: true,
		Rule:   "in-process through the real NewObject/Write/GetObject for (kind in blob,tree,commit) x generated byte strings (empty, every single byte [thorough: all 256], NUL-rich, CRLF, invalid UTF-8, header look-alikes, runs and PRNG bytes at boundary sizes up to 1 MiB quick / 16 MiB thorough): id == SHA-1 of the canonical encoding computed by the harness, stored file inflates to header+bytes under the right name, GetObject returns kind/size/bytes, re-storing and storing other objects changes nothing; CLI: hash-object / add / ls-files -s / cat-file -t/-p on generated files (byte-exact), sample cross-checked with git hash-object; one file per history: `add` killed before each of its file-system modifications (shim), then the same content stored again by a healthy run must be retrievable; the same with ENOSPC returned by each of its operations (success only with the object stored; a failed store never fakes or prevents the next one); distinct = (kind, content class, size bucket) with non-empty bytes",
		Mons:   func() []core.Monitor { return []core.Monitor{C01Mon{}} },
		Run:    runC01,
		Floors: []core.Floor{{Key: "C01.roundtrip", Min: 300}, {Key: "C01.cli", Min: 40}, {Key: "C01.store-after-interrupted-store", Min: 100}, {Key: "C01.store-after-failed-store", Min: 100}},
	})
}
