package mon

import (
	"bytes"
	"fmt"
	"sort"
	"strings"

	"verif/harness/core"
	"verif/harness/gen"
	"verif/harness/gitfmt"
	"verif/harness/sandbox"
)

// shadowBlobs: blob id -> the bytes a working file held when that id was first observed in
// the staging area (content-addressed, so robust against restore --staged / reset).
func shadowBlobs(w *core.World) map[string][]byte {
	m, _ := w.Shadow["blobs"].(map[string][]byte)
	if m == nil {
		m = map[string][]byte{}
		w.Shadow["blobs"] = m
	}
	return m
}

func observeStaging(w *core.World, st *core.Step) {
	if !st.Post.HasGoit() {
		return
	}
	post, okp := idx(st.Post)
	if !okp {
		return
	}
	sb := shadowBlobs(w)
	wt := st.Pre.WT()
	for p, id := range post {
		if _, known := sb[id]; known {
			continue
		}
		if b, ok := wt[p]; ok && gitfmt.BlobID(b) == id {
			sb[id] = b
		}
	}
	// per path: the bytes the file had when `add` last (re)staged it -- whatever id the entry got
	sp, _ := w.Shadow["stagedBytesByPath"].(map[string][]byte)
	if sp == nil {
		sp = map[string][]byte{}
		w.Shadow["stagedBytesByPath"] = sp
	}
	pre, _ := idx(st.Pre)
	for p, id := range post {
		if pre[p] == id {
			continue
		}
		if b, ok := wt[p]; ok && st.Cmd() == "add" && st.Exit == 0 {
			sp[p] = b
		} else {
			delete(sp, p)
		}
	}
	for p := range pre {
		if _, ok := post[p]; !ok {
			delete(sp, p)
		}
	}
}

// effectiveIdentity: local over global, per key.
func effectiveIdentity(r *sandbox.Repo) (name, email string, nameSet, emailSet bool) {
	get := func(k string) (string, bool) {
		if r.Local != nil {
			if v, ok := r.Local["user"][k]; ok {
				return v, true
			}
		}
		if r.Global != nil {
			if v, ok := r.Global["user"][k]; ok {
				return v, true
			}
		}
		return "", false
	}
	name, nameSet = get("name")
	email, emailSet = get("email")
	return
}

type C02Mon struct{}

func nameShape(m map[string]string) string {
	depth, dirs, space, sib := 0, map[string]bool{}, false, false
	keys := gitfmt.SortedKeys(m)
	for _, p := range keys {
		d := strings.Count(p, "/")
		if d > depth {
			depth = d
		}
		if strings.Contains(p, " ") {
			space = true
		}
		if i := strings.Index(p, "/"); i > 0 {
			dirs[p[:i]] = true
		}
	}
	for d := range dirs {
		for _, p := range keys {
			first := strings.SplitN(p, "/", 2)[0]
			if first != d && strings.HasPrefix(first, d) {
				sib = true
			}
		}
	}
	return fmt.Sprintf("depth%d|dirs%d|space%v|sibling-ext%v|n%d", depth, min(len(dirs), 3), space, sib, min(len(m), 5))
}

func (C02Mon) After(w *core.World, st *core.Step) {
	if st.Kind == "goit" {
		observeStaging(w, st)
	}
	if st.Kind == "goit" && st.Cmd() == "config" && st.Exit == 0 {
		// what was GIVEN as the identity (the files are read by other processes in between and may be rewritten)
		if pa := ParseArgv(st.Argv); len(pa.Pos) == 2 && (pa.Pos[0] == "user.name" || pa.Pos[0] == "user.email") && pa.OnlyFlags("--global") {
			given, _ := w.Shadow["c02.given"].(map[string]string)
			if given == nil {
				given = map[string]string{}
				w.Shadow["c02.given"] = given
			}
			scope := "local:"
			if _, g := pa.Flag("--global"); g {
				scope = "global:"
			}
			given[scope+pa.Pos[0]] = pa.Pos[1]
		}
	}
	if st.Kind != "goit" || st.Cmd() != "commit" || !st.Pre.HasGoit() {
		return
	}
	c := w.C
	pa := ParseArgv(st.Argv)
	msg, hasMsg := pa.Flag("-m", "--message")
	if !hasMsg || len(pa.Pos) > 0 || !pa.OnlyFlags("-m", "--message") {
		return
	}
	pre, post := st.Pre.Repo(), st.Post.Repo()
	if !pre.HeadOK {
		return
	}
	idx0, ok0 := pre.Idx()
	idx1, ok1 := post.Idx()
	if !ok0 {
		return
	}
	head := pre.HeadBranch
	c.Count("C02.commit-attempts")
	if st.Exit != 0 {
		c.Oracle("C02.refused-frame")
		if !EqualMaps(pre.Branches, post.Branches) || pre.HeadRaw != post.HeadRaw {
			w.Fail("C02.refused-frame", "refs-changed", "commit-refused", "%s was refused but refs/HEAD changed: %v -> %v", st.String(), pre.Branches, post.Branches)
		}
		if !ok1 || !EqualMaps(idx0, idx1) {
			w.Fail("C02.refused-frame", "index-changed", "commit-refused", "%s was refused but the staging area changed", st.String())
		}
		if d := wtDiff(st.Pre, st.Post); len(d) > 0 {
			w.Fail("C02.refused-frame", "worktree-changed", "commit-refused", "%s was refused but working files changed: %v", st.String(), d)
		}
		return
	}
	c.Count("C02.commits")
	conflict := HasConflict(idx0)
	trig := "none"
	if conflict {
		trig = "staged-file-dir-conflict"
	}
	// tip
	c.Oracle("C02.tip")
	X := post.Branches[head]
	if !gitfmt.IsHex40(X) {
		w.Fail("C02.tip", "branch-not-an-id", trig, "after %s branch %q holds %q", st.String(), head, X)
		return
	}
	cm, err := post.Commit(X)
	if err != nil {
		w.Fail("C02.tip", "tip-not-a-commit", trig, "after %s: %v", st.String(), err)
		return
	}
	_, existed := pre.Objects[X]
	if X == pre.Branches[head] {
		w.Fail("C02.tip", "branch-not-advanced", trig, "%s exited 0 but branch %q still names %s", st.String(), head, short(X))
		return
	}
	// new objects: only the commit and trees; nothing disappears (C03 checks the latter everywhere)
	c.Oracle("C02.new-objects")
	newCommits := 0
	for id, oi := range post.Objects {
		if _, was := pre.Objects[id]; was {
			continue
		}
		if oi.Err != nil {
			w.Fail("C02.new-objects", "new-object-undecodable", trig, "commit wrote undecodable object %s: %v", id, oi.Err)
			continue
		}
		switch oi.Obj.Kind {
		case "tree":
		case "commit":
			newCommits++
			if id != X {
				w.Fail("C02.new-objects", "extra-commit", trig, "commit wrote a second commit object %s besides the tip %s", short(id), short(X))
			}
		default:
			w.Fail("C02.new-objects", "new-"+oi.Obj.Kind, trig, "commit wrote a %s object %s", oi.Obj.Kind, short(id))
		}
	}
	if newCommits == 0 && !existed {
		w.Fail("C02.new-objects", "no-new-commit", trig, "tip %s is neither new nor pre-existing", short(X))
	}
	// snapshot == index
	c.Oracle("C02.snapshot-eq-index")
	snap, err := post.Flatten(cm.Tree)
	if err != nil {
		w.Fail("C02.tree-shape", "tree-undecodable", trig, "after %s the new commit's tree does not flatten: %v", st.String(), err)
	} else if !EqualMaps(idx0, snap) {
		w.Fail("C02.snapshot-eq-index", "snapshot-differs", trig, "after %s: snapshot of %s != staged set: %s", st.String(), short(X), DiffMaps(idx0, snap))
	} else {
		c.Class("C02|" + nameShape(idx0) + "|parent:" + fmt.Sprint(pre.Branches[head] != ""))
		if len(idx0) >= 2 {
			c.Count("C02.commits-2plus-entries")
		}
	}
	// blob bytes
	c.Oracle("C02.blob-bytes")
	sb := shadowBlobs(w)
	for p, id := range idx0 {
		o, ok := post.Obj(id)
		if !ok || o.Kind != "blob" {
			w.Fail("C02.blob-bytes", "blob-missing", trig, "staged path %q: blob %s missing/undecodable after commit", p, short(id))
			continue
		}
		sp, _ := w.Shadow["stagedBytesByPath"].(map[string][]byte)
		if want, known := sb[id]; known {
			if !bytes.Equal(want, o.Body) {
				w.Fail("C02.blob-bytes", "blob-bytes-differ", trig, "path %q: blob %s does not hold the bytes the file had when staged", p, short(id))
			}
		} else if want, ok := sp[p]; ok {
			if !bytes.Equal(want, o.Body) {
				w.Fail("C02.blob-bytes", "blob-bytes-differ", trig, "path %q: the committed blob %s (%d bytes) does not hold the %d bytes the file had when `add` staged it", p, short(id), len(o.Body), len(want))
			}
		} else {
			c.Count("C02.blob-unknown-provenance")
		}
	}
	// parent
	c.Oracle("C02.parent")
	prev := pre.Branches[head]
	switch {
	case prev == "" && len(cm.Parents) != 0:
		w.Fail("C02.parent", "parent-on-first-commit", trig, "first commit on %q has parents %v", head, cm.Parents)
	case prev != "" && (len(cm.Parents) != 1 || cm.Parents[0] != prev):
		w.Fail("C02.parent", "wrong-parent", trig, "commit %s on %q has parents %v, branch pointed to %s", short(X), head, cm.Parents, short(prev))
	}
	// frame
	c.Oracle("C02.frame")
	for b, v := range pre.Branches {
		if b != head && post.Branches[b] != v {
			w.Fail("C02.frame", "other-branch-changed", trig, "commit on %q changed branch %q: %s -> %s", head, b, short(v), short(post.Branches[b]))
		}
	}
	for b := range post.Branches {
		if _, was := pre.Branches[b]; !was && b != head {
			w.Fail("C02.frame", "branch-appeared", trig, "commit on %q created branch %q", head, b)
		}
	}
	if post.HeadRaw != pre.HeadRaw {
		w.Fail("C02.frame", "head-changed", trig, "commit changed HEAD from %q to %q", pre.HeadRaw, post.HeadRaw)
	}
	if !ok1 || !EqualMaps(idx0, idx1) {
		w.Fail("C02.frame", "index-changed", trig, "commit changed the staging area: %s", DiffMaps(idx0, idx1))
	}
	if d := wtDiff(st.Pre, st.Post); len(d) > 0 {
		w.Fail("C02.frame", "worktree-changed", trig, "commit changed working files: %v", d)
	}
	// identity and message
	c.Oracle("C02.identity")
	name, email, _, _ := effectiveIdentity(pre)
	if !cm.HasAuthor || !cm.HasCommit {
		w.Fail("C02.identity", "signature-missing", trig, "commit %s lacks author/committer", short(X))
	} else if cm.Author.Name != name || cm.Author.Email != email || cm.Committer.Name != name || cm.Committer.Email != email {
		w.Fail("C02.identity", "identity-differs", trig, "commit %s author=%q <%s> committer=%q <%s>, configured %q <%s>", short(X), cm.Author.Name, cm.Author.Email, cm.Committer.Name, cm.Committer.Email, name, email)
	}
	if given, _ := w.Shadow["c02.given"].(map[string]string); given != nil && cm.HasAuthor {
		for key, got := range map[string]string{"user.name": cm.Author.Name, "user.email": cm.Author.Email} {
			want, ok := given["local:"+key]
			if !ok {
				want, ok = given["global:"+key]
			}
			// values of printable characters with inner single blanks are used unchanged (C20's domain)
			if ok && want != got && strings.TrimSpace(want) == want && !strings.Contains(want, "  ") && !strings.ContainsAny(want, "\t\n\r") {
				w.Fail("C02.identity", "identity-differs-from-given", trig, "commit %s records %s %q, the value given to `config %s` was %q", short(X), key, got, key, want)
			}
		}
	}
	c.Oracle("C02.message")
	if cm.RawMsg != msg+"\n" {
		w.Fail("C02.message", "message-differs", trig, "commit %s stores message %q, given %q", short(X), clipS(cm.RawMsg, 80), clipS(msg, 80))
	}
}

func runC02(c *core.Ctx) {
	n := c.Pick(600, 4000)
	c.RunHistories(n, Registry["C02"].Mons, func(w *core.World) {
		wts := map[string]int{
			"edit-new": 14, "edit-copy": 2, "edit-copydir": 1, "edit-mod": 8, "edit-mod-samesize": 3, "edit-rm": 4, "edit-rmdir": 2, "edit-same": 1,
			"add": 16, "add-all": 2, "rm": 4, "commit": 14, "commit-all": 4,
			"restore": 2, "restore-staged": 4, "reset": 4,
			"branch-create": 3, "switch": 3, "switch-c": 2, "branch-rename": 1, "config": 1,
		}
		k := NewWalker(w, gen.NameOpts{Space: true, NonASCII: w.Hist%2 == 0, Meta: w.Hist%5 == 0, MaxDepth: 4, N: 5 + w.Hist%6}, wts)
		k.Hostile = 4
		k.MaxContent = 70000
		if w.Hist%5 == 1 {
			// file <-> directory replacements: the staging area may then hold both p and p/q
			k.Swap = true
			k.Weights["edit-swap"] = 5
			k.keys = append(k.keys, "edit-swap")
			sort.Strings(k.keys)
			k.total += 5
		}
		k.MsgClass = w.Hist%2 == 0 // every message class of the quantifiers (multi-line, tabs, %, non-ASCII ...)
		if w.Hist%8 == 4 {
			// identity split over the two scopes: name only global, e-mail only local
			w.Goit("init")
			w.Goit("config", "--global", "user.name", "Global Only Name")
			w.Goit("config", "user.email", "local-only@example.org")
		} else if w.Hist%8 == 6 {
			w.Goit("init")
			w.Goit("config", "user.name", "Local Only Name")
			w.Goit("config", "--global", "user.email", "global-only@example.org")
			w.Goit("config", "user.nick", "n")
		} else if w.Hist%8 == 3 || w.Hist%8 == 5 {
			// identities from the whole pool: quoted literals, '>' and '%' in the name, double blanks ...
			w.Goit("init")
			name, email, icl := gen.Identity(w.Rng)
			w.Goit("config", "user.name", name)
			w.Goit("config", "user.email", email)
			c.Class("C02.identity|" + icl)
		} else {
			k.Init()
		}
		if w.Hist%4 == 0 && w.Hist%8 != 4 {
			w.Goit("config", "--global", "user.name", "Global Name")
			w.Goit("config", "--global", "user.email", "global@example.org")
		}
		// stage the whole pool early so that commits are about interesting name sets
		for _, p := range k.Pool {
			if len(k.wtFiles()) >= 4+w.Hist%5 {
				break
			}
			w.Write(p, k.content())
		}
		if w.Hist == 3 || (c.Thorough() && w.Hist%1500 == 3) {
			// a file beyond 100 MiB in the committed snapshot
			w.EditRand("huge.bin", "c02-huge", 100<<20+17)
			k.goit("add", "huge.bin")
			k.Do("commit")
			w.Edit("rm", "huge.bin", nil)
			k.goit("add", "huge.bin")
			c.Count("scale.huge-file-histories")
		}
		if w.Hist%12 == 7 {
			// twin directories: the same relative names beneath both, different blobs, and the blob sets related in the ways
			// a fingerprint may confuse (every file of a directory with one content; the same contents exchanged between
			// the names; one directory a copy of the other but for one file); each is a tree of its own in the snapshot
			x, y := k.content(), append(k.content(), []byte("twin\n")...)
			for _, f := range [][2]string{{"tw-a/f1", "x"}, {"tw-a/f2", "x"}, {"tw-b/f1", "y"}, {"tw-b/f2", "y"},
				{"tw-p/m", "x"}, {"tw-p/n", "y"}, {"tw-q/m", "y"}, {"tw-q/n", "x"},
				{"tw-r/sub/m", "x"}, {"tw-r/sub/n", "x"}, {"tw-s/sub/m", "x"}, {"tw-s/sub/n", "y"}} {
				if f[1] == "x" {
					w.Write(f[0], x)
				} else {
					w.Write(f[0], y)
				}
			}
			k.goit("add", "tw-a", "tw-b", "tw-p", "tw-q", "tw-r", "tw-s")
			k.Do("commit")
			c.Count("C02.twin-directories")
		}
		if w.Hist%24 == 11 {
			k.BoundaryFiles("blk/")
			k.goit("add", "blk")
			k.Do("commit")
		}
		if w.Hist%12 == 5 {
			// scale: a staging-area file well beyond 4 KiB, written by one process and read by the next ones
			k.Populate(130 + k.R.IntN(200))
			k.goit("add", ".")
			k.Do("commit")
		}
		steps := c.Pick(36, 40)
		for i := 0; i < steps; i++ {
			k.Step()
		}
		k.Do("commit-all")
	})
}

func init() {
	register(&Prop{ID: "C02", Level: "exploration",
		Rule:   "seeded random histories of edits/add/rm/restore/reset/branch/switch ending in or interleaved with `commit -m`; name sets from the C02 quantifier (nested dirs, spaces, dots, dashes, plus, parentheses, non-ASCII, dir next to dir.go / dir-old); every successful commit is decoded independently and compared with the pre-state (tip, new objects, snapshot == staged set, blob bytes == bytes at staging time, parent, frame, identity, message); distinct = (shape of staged name set, has-parent) among successful commits",
		Mons:   func() []core.Monitor { return []core.Monitor{C02Mon{}} },
		Run:    runC02,
		Floors: []core.Floor{{Key: "C02.commit-attempts", Min: 400}, {Key: "C02.snapshot-eq-index", Min: 200}},
	})
}
