package mon

import (
	"fmt"
	"os"
	"path/filepath"
	"strings"
	"time"

	"verif/harness/core"
	"verif/harness/gen"
)

func runC06(c *core.Ctx) {
	RunIn(c, "", 16, 2048)
	runC06CLI(c)
	runC06Histories(c)
}

type C12Mon struct{}

func (C12Mon) After(w *core.World, st *core.Step) {}

func runC12(c *core.Ctx) {
	RunIn(c, "", 16, 2048)
	tzs, err := gen.WriteTZFiles(c.Scratch + "/tz")
	if err != nil {
		c.Broken("tz files: " + err.Error())
		return
	}
	offs := gen.TZOffsets()
	var use []int
	for _, o := range offs {
		if c.Thorough() || o%60 != 0 || o == -12*60 || o == 14*60 || o == 0 || o == -5*60 || o == 9*60 || o == -60 {
			use = append(use, o)
		}
	}
	c.Extra["cli_offsets"] = len(use)
	// boundary instants through the clock-pinned (vfs-rewritten) binary
	instants := []string{""}
	if c.GoitVFS != "" {
		instants = []string{"", "1", "59", "86399", "1000000000", "2147483647", "2147483648", "4294967296", "253402300799"}
		if !c.Thorough() {
			instants = []string{"", "1", "2147483648"}
		}
	}
	type job struct {
		off int
		now string
		tz  string // a zone file with a transition (else the fixed-offset file of off)
	}
	var jobs []job
	for _, o := range use {
		for _, in := range instants {
			jobs = append(jobs, job{o, in, ""})
		}
	}
	if c.GoitVFS != "" {
		// zones with a transition, the clock pinned inside the repeated (or skipped) wall-clock hour around it: the stored
		// instant is the clock's, the stored offset the one the zone has at that instant
		const at = 1_700_000_000
		for i, tr := range [][2]int{{120, 60}, {-240, -300}, {660, 630}, {60, 120}, {-570, -510}, {345, 405}} {
			p := filepath.Join(c.Scratch, "tz", fmt.Sprintf("transition-%d", i))
			os.MkdirAll(filepath.Dir(p), 0o777)
			os.WriteFile(p, gen.TZifTransition(int32(tr[0]*60), int32(tr[1]*60), at), 0o666)
			for _, d := range []int{-3599, -1800, -1, 0, 1, 1800, 3599} {
				off := tr[0]
				if d >= 0 {
					off = tr[1]
				}
				jobs = append(jobs, job{off, fmt.Sprint(at + d), p})
			}
		}
	}
	c.RunHistories(len(jobs), Registry["C12"].Mons, func(w *core.World) {
		j := jobs[w.Hist]
		off := j.off
		w.TZ = tzs[off]
		if j.tz != "" {
			w.TZ = j.tz
		}
		if j.now != "" {
			w.GoitBin = c.GoitVFS
			w.Env = map[string]string{"VERIF_NOW": j.now}
		}
		name, email, icl := gen.Identity(w.Rng)
		w.Goit("init")
		// where the two parts of the identity come from: both local, both global, or one each (with an unrelated
		// local key, so that a local [user] section exists without the part that is global)
		switch w.Hist % 5 {
		case 1:
			w.Goit("config", "--global", "user.name", name)
			w.Goit("config", "--global", "user.email", email)
		case 2:
			w.Goit("config", "--global", "user.name", name)
			w.Goit("config", "user.email", email)
		case 3:
			w.Goit("config", "user.name", name)
			w.Goit("config", "--global", "user.email", email)
			w.Goit("config", "user.signingkey", "k")
		case 4:
			w.Goit("config", "--global", "user.name", "Overridden Global")
			w.Goit("config", "--global", "user.email", "overridden@global.example")
			w.Goit("config", "user.name", name)
			w.Goit("config", "user.email", email)
		default:
			w.Goit("config", "user.name", name)
			w.Goit("config", "user.email", email)
		}
		tzs := gen.TZName(off)
		for i := 0; i < 2; i++ {
			msg, mclass := gen.Message(w.Rng, i+1)
			trig := "offset" + offClass(off)
			c.Class(fmt.Sprintf("cli|%s|%s|now=%s", tzs, mclass, j.now))
			_ = icl
			w.Write(fmt.Sprintf("f%d", i), gen.SmallText(w.Rng))
			w.Goit("add", fmt.Sprintf("f%d", i))
			st := w.Goit("commit", "-m", msg)
			c.Oracle("C12.cli-commit-exit")
			if st.Exit != 0 {
				w.Fail("C12.cli-commit-exit", "commit-refused", trig, "commit under TZ=%s (identity %q <%s>) exits %d: %s", tzs, name, email, st.Exit, clipS(firstLine(st.Stdout+st.Stderr), 200))
				continue
			}
			post := st.Post.Repo()
			X := post.HeadCommit()
			cm, err := post.Commit(X)
			c.Oracle("C12.cli-author-line")
			if err != nil {
				w.Fail("C12.cli-author-line", "commit-undecodable", trig, "the commit written under TZ=%s does not decode: %v", tzs, err)
				continue
			}
			for who, sg := range map[string]struct {
				n, e, tz string
				s        int64
			}{"author": {cm.Author.Name, cm.Author.Email, cm.Author.TZ, cm.Author.Secs}, "committer": {cm.Committer.Name, cm.Committer.Email, cm.Committer.TZ, cm.Committer.Secs}} {
				if sg.n != name || sg.e != email || sg.tz != tzs {
					w.Fail("C12.cli-author-line", "line-differs", trig, "%s line is %q <%s> … %s; expected %q <%s> … %s", who, sg.n, sg.e, sg.tz, name, email, tzs)
				}
				if j.now != "" && fmt.Sprint(sg.s) != j.now {
					w.Fail("C12.cli-author-line", "instant-differs", trig, "%s seconds %d, clock pinned at %s", who, sg.s, j.now)
				}
			}
			c.Oracle("C12.message")
			if cm.RawMsg != msg+"\n" {
				w.Fail("C12.message", "message-differs", "message:"+mclass, "stored message %q, given %q", clipS(cm.RawMsg, 80), clipS(msg, 80))
			}
			// cat-file -p prints exactly the stored body
			cf := w.Goit("cat-file", "-p", X)
			if o, ok := post.Obj(X); ok && (cf.Exit != 0 || cf.Stdout != string(o.Body)+"\n") {
				w.Fail("C12.cli-author-line", "cat-file-differs", trig, "cat-file -p of the commit does not print the stored body (exit %d)", cf.Exit)
			}
			// log shows the same name, e-mail, local time and offset
			lg := w.Goit("log", "-n", "1")
			c.Oracle("C12.cli-log")
			bs := ParseLog(lg.Stdout)
			if lg.Exit != 0 || len(bs) != 1 {
				w.Fail("C12.cli-log", "log-fails", trig, "log -n 1 under TZ=%s: exit %d, %d blocks: %s", tzs, lg.Exit, len(bs), clipS(firstLine(lg.Stdout+lg.Stderr), 160))
				continue
			}
			b := bs[0]
			local := time.Unix(cm.Author.Secs, 0).UTC().Add(time.Duration(off) * time.Minute).Format("2006-01-02 15:04:05")
			if b.ID != X || b.Author != name+" <"+email+">" || !strings.Contains(b.Date, local) || !strings.Contains(b.Date, tzs) {
				w.Fail("C12.cli-log", "log-differs", trig, "log shows commit %s Author %q Date %q; stored: %s %q <%s> local time %s %s", short(b.ID), b.Author, b.Date, short(X), name, email, local, tzs)
			}
			if b.Message != cm.Message {
				w.Fail("C12.message", "log-message-differs", "message:"+mclass, "log shows message %q, stored %q", clipS(b.Message, 80), clipS(cm.Message, 80))
			}
		}
	})
}

func offClass(off int) string {
	switch {
	case off < 0 && off%60 != 0:
		return "-negative-fractional"
	case off < 0:
		return "-negative"
	case off%60 != 0:
		return "-positive-fractional"
	case off == 0:
		return "-zero"
	}
	return "-positive"
}

func init() {
	register(&Prop{ID: "C06", Level: "exploration", NeedIn: true,
		Rule:   "(a) in-process, exhaustive over a sub-space: every conflict-free subset P (|P|<=3 quick, <=4 thorough) of a 34-path universe built around the byte order of '/' and regexp metacharacters, inserted through the real Index.Update in seeded random order, then reloaded; for every query q in the universe, its directory prefixes and single components: GetEntry found <=> q in P, IsRegisteredAsDirectory <=> some path beneath q/, GetEntriesByDirectory == the paths beneath q/, no panic; the written file must decode (independent decoder) to exactly P in strictly ascending order; (b) CLI: seeded histories of add/rm/restore/restore --staged/reset/commit; after every command that rewrites .goit/index the file is decoded and checked for canonical form and against ls-files; after every successful `add` of plain files the decoded paths are exactly the former paths plus the named ones, byte for byte (names that are not valid UTF-8 included); sampled P: rm/restore/add on every tracked path, tracked directory and near-miss name select exactly the tracked paths beneath; distinct = (P, q) pairs with a non-trivial expected answer + CLI classes",
		Mons:   func() []core.Monitor { return []core.Monitor{C06Mon{}} },
		Run:    runC06,
		Floors: []core.Floor{{Key: "C06.getentry", Min: 100000}, {Key: "C06.cli-addressable", Min: 300}, {Key: "C06.file-canonical", Min: 1000}, {Key: "C06.entries-written", Min: 1000}},
	})
	register(&Prop{ID: "C12", Level: "exploration", NeedIn: true,
		Rule:   "(a) in-process: all 105 quarter-hour offsets in [-12:00,+14:00] x instants {0,1,59,86399,1e9,2^31-1,2^31,2^32,253402300799, seeded random} x names x e-mails x message classes: Sign.String() has the Git form with the right digits, NewCommit accepts the commit and returns the same name, e-mail, Unix seconds, zone offset and message; (b) CLI: add+commit under TZ=<synthetic TZif file> for 27+ offsets (quick: every non-whole-hour offset, both extremes, some whole hours; thorough: all 105), also with the clock pinned (VERIF_NOW) at boundary instants through the vfs-rewritten binary; stored author/committer lines, cat-file -p and log -n 1 must agree; distinct = (offset, instant class, message class)",
		Mons:   func() []core.Monitor { return []core.Monitor{C12Mon{}} },
		Run:    runC12,
		Floors: []core.Floor{{Key: "C12.sign-roundtrip", Min: 1500}, {Key: "C12.cli-commit-exit", Min: 50}},
	})
}
