// Package mon: the monitors (sets of oracles) and workload drivers, one per property.
package mon

import (
	"encoding/hex"
	"fmt"
	"hash/adler32"
	"hash/crc32"
	"hash/fnv"
	"math/rand/v2"
	"path"
	"regexp"
	"sort"
	"strconv"
	"strings"
	"sync"
	"unicode/utf8"

	"verif/harness/core"
	"verif/harness/gitfmt"
	"verif/harness/sandbox"
)

// ---------------------------------------------------------------------------------------
// Output parsers (lenient, keyed on the strings the properties quote)

type StatusReport struct {
	Branch         string
	Staged         map[string]string // path -> label (new file|modified|deleted)
	NotStaged      map[string]string // path -> label (modified|deleted)
	Untracked      map[string]bool
	Dups           []string
	HasStagedBlock bool
}

func ParseStatus(out string) *StatusReport {
	r := &StatusReport{Staged: map[string]string{}, NotStaged: map[string]string{}, Untracked: map[string]bool{}}
	sec := ""
	for _, ln := range strings.Split(out, "\n") {
		switch {
		case strings.HasPrefix(ln, "On branch "):
			r.Branch = strings.TrimPrefix(ln, "On branch ")
			continue
		case strings.Contains(ln, "Changes to be committed"):
			sec = "staged"
			r.HasStagedBlock = true
			continue
		case strings.Contains(ln, "Changes not staged for commit"):
			sec = "notstaged"
			continue
		case strings.Contains(ln, "Untracked files"):
			sec = "untracked"
			continue
		}
		if !strings.HasPrefix(ln, "\t") {
			continue
		}
		body := ln[1:]
		switch sec {
		case "staged", "notstaged":
			lab := ""
			for _, l := range []string{"new file:", "modified:", "deleted:"} {
				if strings.HasPrefix(body, l) {
					lab = l
				}
			}
			if lab == "" {
				r.Dups = append(r.Dups, "unparsed line: "+ln)
				continue
			}
			p := strings.TrimLeft(body[len(lab):], " ")
			m := r.Staged
			if sec == "notstaged" {
				m = r.NotStaged
			}
			if _, dup := m[p]; dup {
				r.Dups = append(r.Dups, sec+" twice: "+p)
			}
			m[p] = strings.TrimSuffix(lab, ":")
		case "untracked":
			if r.Untracked[body] {
				r.Dups = append(r.Dups, "untracked twice: "+body)
			}
			r.Untracked[body] = true
		}
	}
	return r
}

type ReflogEntry struct {
	Prefix string
	Refs   string
	N      int
	Kind   string
	Text   string
}

var reflogRe = regexp.MustCompile(`^([0-9a-f]{7}) (?:\((.*?)\) )?HEAD@\{(\d+)\}: ([a-z]+): (.*)$`)

// ParseReflog returns the entries and the lines that did not parse.
func ParseReflog(out string) ([]ReflogEntry, []string) {
	var es []ReflogEntry
	var bad []string
	for _, ln := range strings.Split(strings.TrimSuffix(out, "\n"), "\n") {
		if ln == "" {
			continue
		}
		m := reflogRe.FindStringSubmatch(ln)
		if m == nil {
			bad = append(bad, ln)
			continue
		}
		n, _ := strconv.Atoi(m[3])
		es = append(es, ReflogEntry{Prefix: m[1], Refs: m[2], N: n, Kind: m[4], Text: m[5]})
	}
	return es, bad
}

// ParseLsFilesS parses `ls-files -s` ("<40hex>    <path>").
func ParseLsFilesS(out string) (map[string]string, []string, error) {
	m := map[string]string{}
	var order []string
	if out == "" {
		return m, nil, nil
	}
	for _, ln := range strings.Split(strings.TrimSuffix(out, "\n"), "\n") {
		if len(ln) < 45 || !gitfmt.IsHex40(ln[:40]) || ln[40:44] != "    " {
			return nil, nil, fmt.Errorf("unparsable ls-files -s line %q", ln)
		}
		p := ln[44:]
		if _, dup := m[p]; dup {
			return nil, nil, fmt.Errorf("ls-files -s lists %q twice", p)
		}
		m[p] = ln[:40]
		order = append(order, p)
	}
	return m, order, nil
}

// ParseLog splits `goit log` output into blocks.
type LogBlock struct {
	ID      string
	Author  string
	Date    string
	Message string
}

func ParseLog(out string) []LogBlock {
	var bs []LogBlock
	lines := strings.Split(out, "\n")
	i := 0
	for i < len(lines) {
		ln := lines[i]
		if strings.HasPrefix(ln, "commit ") && gitfmt.IsHex40(strings.TrimPrefix(ln, "commit ")) &&
			i+2 < len(lines) && strings.HasPrefix(lines[i+1], "Author: ") && strings.HasPrefix(lines[i+2], "Date: ") {
			b := LogBlock{ID: ln[7:], Author: strings.TrimPrefix(lines[i+1], "Author: "), Date: strings.TrimPrefix(lines[i+2], "Date: ")}
			i += 3
			// blank line then "\t<message>" possibly spanning lines until the next block
			var msg []string
			next := false
			for i < len(lines) {
				if strings.HasPrefix(lines[i], "commit ") && gitfmt.IsHex40(strings.TrimPrefix(lines[i], "commit ")) &&
					i+2 < len(lines) && strings.HasPrefix(lines[i+1], "Author: ") {
					next = true
					break
				}
				msg = append(msg, lines[i])
				i++
			}
			m := strings.Join(msg, "\n")
			if next {
				m += "\n" // the line feed in front of the next block's first line (the split consumed it)
			}
			m = strings.TrimPrefix(m, "\n")
			m = strings.TrimPrefix(m, "\t")
			// Goit prints "\n\t<msg>\n" then Println adds "\n": strip the two trailing newlines
			m = strings.TrimSuffix(m, "\n")
			m = strings.TrimSuffix(m, "\n")
			b.Message = m
			bs = append(bs, b)
			continue
		}
		i++
	}
	return bs
}

// ---------------------------------------------------------------------------------------
// Ignore model (exactly what C17 states, no more)

type IgnoreRules struct {
	Dirs    []string // "name/" lines, without the trailing slash
	Exts    []string // "*.ext" lines, the ".ext" part
	Exact   []string // other lines (exact path from the root)
	Present bool
	// Unsettled: the file has lines outside the forms the statement speaks about (blank lines)
	Unsettled bool
	// Odd: rules that are not valid UTF-8 (a Latin-1 name). What they hide is not settled; every other rule still counts.
	Odd []string
}

func ParseIgnore(wt map[string][]byte) IgnoreRules {
	var ir IgnoreRules
	b, ok := wt[".goitignore"]
	if !ok {
		return ir
	}
	ir.Present = true
	for _, ln := range strings.Split(string(b), "\n") {
		ln = strings.TrimSuffix(ln, "\r")
		if ln == "" {
			continue
		}
		if strings.TrimSpace(ln) == "" {
			ir.Unsettled = true
			continue
		}
		if !utf8.ValidString(ln) {
			ir.Odd = append(ir.Odd, strings.Trim(ln, "*/"))
			continue
		}
		switch {
		case strings.HasSuffix(ln, "/"):
			ir.Dirs = append(ir.Dirs, strings.TrimSuffix(ln, "/"))
		case strings.HasPrefix(ln, "*."):
			ir.Exts = append(ir.Exts, ln[1:])
		default:
			ir.Exact = append(ir.Exact, ln)
		}
	}
	return ir
}

// Ignored classifies a file path: "yes", "no" or "dontcare" (the statement does not settle it).
func (ir IgnoreRules) Ignored(p string) string {
	if ir.Unsettled {
		return "dontcare"
	}
	res := "no"
	base := path.Base(p)
	for _, o := range ir.Odd {
		if o != "" && strings.Contains(p, o) {
			res = "dontcare"
		}
	}
	for _, d := range ir.Dirs {
		if strings.HasPrefix(p, d+"/") {
			return "yes"
		}
		if strings.Contains("/"+p, "/"+d+"/") {
			res = "dontcare" // a directory of that name nested deeper
		}
		if strings.Contains(d, "/") || d == "" {
			// multi-component or odd directory rules: only the root-prefix meaning is stated
			continue
		}
	}
	for _, e := range ir.Exts {
		if strings.HasSuffix(base, e) && len(base) >= len(e) {
			return "yes"
		}
		// inside a directory whose own name ends in .ext
		for _, c := range strings.Split(path.Dir(p), "/") {
			if strings.HasSuffix(c, e) {
				res = "dontcare"
			}
		}
	}
	for _, x := range ir.Exact {
		if p == x {
			return "yes"
		}
		if strings.HasPrefix(p, x+"/") || path.Base(p) == x {
			res = "dontcare"
		}
		if strings.ContainsAny(x, "*?[") {
			res = "dontcare" // glob forms beyond "*.ext" are not part of the statement
		}
	}
	return res
}

// ---------------------------------------------------------------------------------------
// Path helpers

// CleanArg mirrors what a user means by a path argument given at the repository root.
// ok=false when the path escapes the root or is absolute.
func CleanArg(a string) (string, bool) {
	if a == "" || strings.HasPrefix(a, "/") {
		return "", false
	}
	c := path.Clean(a)
	// commands run in the directory "w" of their sandbox: "../w/x" leaves it and comes back, and names x
	if c == "../w" {
		c = "."
	} else if strings.HasPrefix(c, "../w/") {
		c = c[len("../w/"):]
	}
	if c == ".." || strings.HasPrefix(c, "../") {
		return "", false
	}
	return c, true
}

// CleanArgAt is CleanArg for a command run in sandbox sn: an absolute path inside the working
// tree names the same thing as the relative path.
func CleanArgAt(sn *sandbox.Snap, a string) (string, bool) {
	if sn != nil && sn.Root != "" && strings.HasPrefix(a, "/") {
		root := sn.Root + "/w"
		c := path.Clean(a)
		switch {
		case c == root:
			return ".", true
		case strings.HasPrefix(c, root+"/"):
			return c[len(root)+1:], true
		}
		return "", false
	}
	return CleanArg(a)
}

func InGoit(p string) bool { return p == ".goit" || strings.HasPrefix(p, ".goit/") }

// Under reports whether file path p lies beneath directory d ("." = root).
func Under(p, d string) bool {
	if d == "." {
		return true
	}
	return strings.HasPrefix(p, d+"/")
}

func IsDirOnDisk(sn *sandbox.Snap, p string) bool {
	if p == "." {
		return true
	}
	return sn.Dirs["w/"+p]
}

func IsFileOnDisk(sn *sandbox.Snap, p string) bool {
	_, ok := sn.Files["w/"+p]
	return ok
}

func ExistsOnDisk(sn *sandbox.Snap, p string) bool { return IsDirOnDisk(sn, p) || IsFileOnDisk(sn, p) }

// HasConflict reports whether a path set contains both p and p/q.
func HasConflict(m map[string]string) bool {
	keys := gitfmt.SortedKeys(m)
	for i, k := range keys {
		for j := i + 1; j < len(keys); j++ {
			if strings.HasPrefix(keys[j], k+"/") {
				return true
			}
			if !strings.HasPrefix(keys[j], k) {
				break
			}
		}
	}
	return false
}

func EqualMaps(a, b map[string]string) bool {
	if len(a) != len(b) {
		return false
	}
	for k, v := range a {
		if w, ok := b[k]; !ok || w != v {
			return false
		}
	}
	return true
}

// DiffMaps describes how b differs from a (bounded).
func DiffMaps(a, b map[string]string) string {
	var out []string
	for _, k := range gitfmt.SortedKeys(a) {
		if w, ok := b[k]; !ok {
			out = append(out, fmt.Sprintf("missing %q", k))
		} else if w != a[k] {
			out = append(out, fmt.Sprintf("%q: want %s got %s", k, short(a[k]), short(w)))
		}
	}
	for _, k := range gitfmt.SortedKeys(b) {
		if _, ok := a[k]; !ok {
			out = append(out, fmt.Sprintf("extra %q", k))
		}
	}
	if len(out) > 6 {
		out = append(out[:6], fmt.Sprintf("… %d more", len(out)-6))
	}
	return strings.Join(out, "; ")
}

func short(id string) string {
	if len(id) > 7 {
		return id[:7]
	}
	return id
}

func CopyMap(m map[string]string) map[string]string {
	o := make(map[string]string, len(m))
	for k, v := range m {
		o[k] = v
	}
	return o
}

func SetOf(xs []string) map[string]bool {
	m := map[string]bool{}
	for _, x := range xs {
		m[x] = true
	}
	return m
}

func SortedSet(m map[string]bool) []string {
	o := make([]string, 0, len(m))
	for k := range m {
		o = append(o, k)
	}
	sort.Strings(o)
	return o
}

// ---------------------------------------------------------------------------------------
// argv parsing of the steps the generators emit (flags are always separate words)

type Parsed struct {
	Cmd   string
	Pos   []string
	Flags map[string]string // flag -> value ("" for booleans)
}

var valueFlags = map[string]map[string]bool{
	"commit": {"-m": true, "--message": true},
	"branch": {"-r": true, "--rename": true, "-d": true, "--delete": true},
	"switch": {"-c": true, "--create": true},
	"log":    {"-n": true, "--max-count": true},
}

// Objects whose ids share their first 32 bits (a birthday search over a few hundred thousand candidates): whatever
// keys a table by an abbreviated id treats them as one.
var (
	twinOnce          sync.Once
	twinBlobA         []byte // two file contents whose BLOB ids share 8 hex digits
	twinBlobB         []byte
	twinTreeA         []byte // two contents of a file "f" such that the TREES {f} share 8 hex digits
	twinTreeB         []byte
	twinBlobs, twinTs bool
	// pairs of file names with the same 32-bit checksum (CRC-32 IEEE and Castagnoli, FNV-1 and FNV-1a, Adler-32):
	// whatever keys a table by a checksum of the path treats the two names as one
	hashTwinNames []string
)

func idTwins() {
	twinOnce.Do(func() {
		seen := map[string]int{}
		for n := 0; n < 1_500_000 && !twinBlobs; n++ {
			c := []byte(fmt.Sprintf("note %d\n", n))
			p := gitfmt.BlobID(c)[:8]
			if m, ok := seen[p]; ok {
				twinBlobA, twinBlobB, twinBlobs = []byte(fmt.Sprintf("note %d\n", m)), c, true
			}
			seen[p] = n
		}
		for _, hf := range []func([]byte) uint32{
			crc32.ChecksumIEEE,
			func(b []byte) uint32 { return crc32.Checksum(b, crc32.MakeTable(crc32.Castagnoli)) },
			func(b []byte) uint32 { h := fnv.New32(); h.Write(b); return h.Sum32() },
			func(b []byte) uint32 { h := fnv.New32a(); h.Write(b); return h.Sum32() },
			adler32.Checksum,
		} {
			got := map[uint32]string{}
			for n := 0; n < 2_000_000; n++ {
				name := fmt.Sprintf("hc/n%x.txt", n*2654435761%4294967291)
				k := hf([]byte(name))
				if other, ok := got[k]; ok && other != name {
					hashTwinNames = append(hashTwinNames, other, name)
					break
				}
				got[k] = name
			}
		}
		seen = map[string]int{}
		treeOf := func(n int) string {
			raw, _ := hex.DecodeString(gitfmt.BlobID([]byte(fmt.Sprintf("twin %d\n", n))))
			return gitfmt.ObjectID("tree", append([]byte("100644 f\x00"), raw...))
		}
		for n := 0; n < 1_500_000 && !twinTs; n++ {
			p := treeOf(n)[:8]
			if m, ok := seen[p]; ok {
				twinTreeA, twinTreeB, twinTs = []byte(fmt.Sprintf("twin %d\n", m)), []byte(fmt.Sprintf("twin %d\n", n)), true
			}
			seen[p] = n
		}
	})
}

var boolFlags = map[string]map[string]bool{
	"config":   {"--global": true},
	"restore":  {"--staged": true},
	"reset":    {"--soft": true, "--mixed": true, "--hard": true},
	"branch":   {"--list": true},
	"cat-file": {"--type": true, "--print": true},
	"rm":       {"--rec": true},
}

func ParseArgv(argv []string) Parsed {
	p := Parsed{Flags: map[string]string{}}
	if len(argv) == 0 {
		return p
	}
	p.Cmd = argv[0]
	vf := valueFlags[p.Cmd]
	for i := 1; i < len(argv); i++ {
		a := argv[i]
		if a == "--" {
			p.Pos = append(p.Pos, argv[i+1:]...)
			break
		}
		if strings.HasPrefix(a, "-") && len(a) > 1 {
			if eq := strings.Index(a, "="); eq > 0 && strings.HasPrefix(a, "--") {
				if boolFlags[p.Cmd][a[:eq]] {
					// a boolean flag with an explicit value: "=false" is the same as leaving the flag out
					switch a[eq+1:] {
					case "1", "t", "T", "true", "TRUE", "True":
						p.Flags[a[:eq]] = ""
						continue
					case "0", "f", "F", "false", "FALSE", "False":
						continue
					}
				}
				p.Flags[a[:eq]] = a[eq+1:]
				continue
			}
			if vf[a] && i+1 < len(argv) {
				p.Flags[a] = argv[i+1]
				i++
			} else {
				p.Flags[a] = ""
			}
			continue
		}
		p.Pos = append(p.Pos, a)
	}
	return p
}

func (p Parsed) Flag(names ...string) (string, bool) {
	for _, n := range names {
		if v, ok := p.Flags[n]; ok {
			return v, true
		}
	}
	return "", false
}

// OnlyFlags reports whether all flags used are among the allowed ones.
func (p Parsed) OnlyFlags(allowed ...string) bool {
	al := SetOf(allowed)
	for f := range p.Flags {
		if !al[f] {
			return false
		}
	}
	return true
}

// ---------------------------------------------------------------------------------------
// Step helpers

func idx(sn *sandbox.Snap) (map[string]string, bool) { return sn.Repo().Idx() }

// goitUnchanged: every file under .goit byte-identical (optionally ignoring some prefixes).
func goitDiff(a, b *sandbox.Snap, ignore ...string) []string {
	var out []string
	for _, d := range sandbox.Diff(a, b) {
		p := d[1:]
		if !strings.HasPrefix(p, "w/.goit") {
			continue
		}
		skip := false
		for _, ig := range ignore {
			if strings.HasPrefix(p, "w/.goit/"+ig) {
				skip = true
			}
		}
		if !skip {
			out = append(out, d)
		}
	}
	return out
}

func wtDiff(a, b *sandbox.Snap) []string {
	var out []string
	for _, d := range sandbox.Diff(a, b) {
		p := d[1:]
		if strings.HasPrefix(p, "w/") && !strings.HasPrefix(p, "w/.goit") {
			if strings.HasSuffix(p, "/") {
				continue // directories appearing/disappearing are not file changes
			}
			out = append(out, d)
		}
	}
	return out
}

func wtFileDiff(a, b *sandbox.Snap) []string { return wtDiff(a, b) }

func sameSandbox(a, b *sandbox.Snap) (bool, []string) {
	d := sandbox.Diff(a, b)
	return len(d) == 0, d
}

func ok(st *core.Step) bool { return st.Kind == "goit" && st.Exit == 0 && st.Signal == "" }

func clipS(s string, n int) string {
	if len(s) > n {
		return s[:n] + "…"
	}
	return s
}

func firstN(xs []string, n int) []string {
	if len(xs) > n {
		return append(append([]string{}, xs[:n]...), fmt.Sprintf("… %d more", len(xs)-n))
	}
	return xs
}

func newRand(seed int64, stream uint64) *rand.Rand {
	return rand.New(rand.NewPCG(uint64(seed), stream*0x9e3779b97f4a7c15+1))
}

func setOf(xs []string) map[string]bool {
	m := map[string]bool{}
	for _, x := range xs {
		m[x] = true
	}
	return m
}

// sameStringSet: the two lists hold the same set of strings (byte-exact).
func sameStringSet(a, b []string) bool {
	ma, mb := setOf(a), setOf(b)
	if len(ma) != len(mb) {
		return false
	}
	for x := range ma {
		if !mb[x] {
			return false
		}
	}
	return true
}

// clipList: at most n elements, then a count of the rest.
func clipList(xs []string, n int) []string {
	if len(xs) <= n {
		return xs
	}
	return append(append([]string{}, xs[:n]...), fmt.Sprintf("... and %d more", len(xs)-n))
}

// sameLink: p is a symbolic link before and after the step, with the same text. What the snapshots hold under p is
// then the content of the file it points to -- another file's state, not p's.
func sameLink(st *core.Step, p string) bool {
	a, b := st.Pre.Odd["w/"+p], st.Post.Odd["w/"+p]
	return a == b && strings.HasPrefix(a, "symlink -> ")
}
