package mon

import (
	"bytes"
	"fmt"
	"strings"

	"verif/harness/core"
	"verif/harness/gen"
	"verif/harness/gitfmt"
)

// ---------------------------------------------------------------------------------------
// C03 — connectivity after any command sequence

type C03Mon struct{}

func triggerOf(st *core.Step) string {
	if st.Kind != "goit" {
		return "edit"
	}
	t := st.Cmd()
	if r, ok := st.Intent["invalid"]; ok {
		t += ":" + r
	}
	if st.Cwd != "" {
		t += ":cwd-inside-goit"
	}
	return t
}

func (C03Mon) After(w *core.World, st *core.Step) {
	if st.Kind != "goit" || !st.Post.HasGoit() {
		return
	}
	if _, hasHead := st.Post.GoitFiles()["HEAD"]; !hasHead && w.SB.RealRoot != "" {
		// a long location in which `init` itself failed half-way ("file name too long"): there is no repository to
		// check (an interrupted init is C15's and C16's subject)
		return
	}
	seen, _ := w.Shadow["c03seen"].(map[string]bool)
	if seen == nil {
		seen = map[string]bool{}
		w.Shadow["c03seen"] = seen
	}
	post := st.Post.Repo()
	w.C.Oracle("C03.fsck")
	for _, p := range post.Fsck(false) {
		if seen[p.Msg] {
			continue
		}
		seen[p.Msg] = true
		w.Fail("C03."+p.Oracle, p.Oracle, triggerOf(st), "after %s: %s", st.String(), p.Msg)
	}
	// monotonicity: no object deleted or altered
	if st.Pre.HasGoit() {
		pre := st.Pre.Repo()
		w.C.Oracle("C03.object-immutable")
		for id, oi := range pre.Objects {
			if oi.Err != nil {
				continue
			}
			po, okp := post.Objects[id]
			key := "immut:" + id
			if seen[key] {
				continue
			}
			if !okp {
				seen[key] = true
				w.Fail("C03.object-immutable", "object-deleted", triggerOf(st), "after %s: object %s (%s) was deleted", st.String(), id, oi.Obj.Kind)
			} else if po.Err != nil || po.Obj.Kind != oi.Obj.Kind || !bytes.Equal(po.Obj.Body, oi.Obj.Body) {
				seen[key] = true
				w.Fail("C03.object-immutable", "object-altered", triggerOf(st), "after %s: object %s (%s) changed content", st.String(), id, oi.Obj.Kind)
			}
		}
	}
}

func hostileWeights() map[string]int {
	return map[string]int{
		"edit-new": 10, "edit-copy": 2, "edit-copydir": 1, "edit-mod": 8, "edit-rm": 3, "edit-rmdir": 2, "edit-swap": 1,
		"add": 10, "add-all": 3, "rm": 5, "commit": 8, "commit-all": 6,
		"restore": 4, "restore-staged": 4, "reset": 9,
		"branch-create": 6, "branch-delete": 3, "branch-rename": 5, "branch-list": 1,
		"switch": 5, "switch-c": 4, "update-ref": 8,
		"status": 2, "log": 1, "reflog": 2, "ls-files": 1, "rev-parse": 1, "cat-file": 1, "write-tree": 1, "config": 1,
	}
}

func runC03(c *core.Ctx) {
	n := c.Pick(600, 5000)
	steps := c.Pick(30, 40)
	drive := func(w *core.World) {
		k := NewWalker(w, gen.NameOpts{Space: true, Meta: w.Hist%2 == 0, NonASCII: w.Hist%3 == 0, MaxDepth: 3, N: 6}, hostileWeights())
		k.Hostile = 25
		k.Escape = true
		k.Swap = true
		if w.Hist%6 != 3 { // a sixth of the histories keeps the walker's small pool of odd names and twins
			k.BranchNames = append(k.BranchNames, oddBranchNames...)
		}
		k.Init()
		// get to a state with a commit quickly in most histories
		if w.Hist%5 != 0 {
			k.Do("commit-all")
		}
		if w.Hist%24 == 19 {
			k.DeepPaths()
			k.goit("add", "deep", "long")
			k.goit("commit", "-m", "deep and long paths")
			k.goit("reset", "--mixed", "HEAD@{0}")
			k.goit("status")
			k.goit("restore", "--staged", "deep")
			k.goit("commit", "-m", "again")
		}
		if w.Hist%12 == 7 {
			// a name that is a directory in HEAD and a file in the staging area (and the other way round), then unstaged:
			// what goes back into the staging area must be blobs, never the id of a tree
			w.Write("sw/x", k.content())
			w.Write("sw2", k.content())
			k.goit("add", "sw", "sw2")
			k.goit("commit", "-m", "a directory and a file")
			w.Edit("rmdir", "sw", nil)
			w.Write("sw", k.content())
			w.Edit("rm", "sw2", nil)
			w.Write("sw2/y", k.content())
			k.goit("add", "sw", "sw/x", "sw2")
			k.goit("restore", "--staged", "sw")
			k.goit("restore", "--staged", "sw2")
			k.goit("commit", "-m", "after unstaging the swap")
			k.goit("status")
		}
		if w.Hist%12 == 2 {
			// a tracked path that has become a symbolic link INTO the object store: bringing the file back (restore,
			// reset --hard) must replace the link, not write the blob's bytes into a stored object
			rp := w.State().Repo()
			idx0, _ := idx(w.State())
			if p, ok := k.pick(gitfmt.SortedKeys(idx0)); ok && rp != nil && rp.HeadCommit() != "" && IsFileOnDisk(w.State(), p) {
				id := rp.HeadCommit()
				w.Edit("rm", p, nil)
				w.Symlink(p, strings.Repeat("../", strings.Count(p, "/"))+".goit/objects/"+id[:2]+"/"+id[2:])
				if w.Hist%24 == 2 {
					k.goit("restore", p)
				} else {
					k.goit("reset", "--hard", "HEAD@{0}")
				}
				k.goit("status")
				c.Count("C03.link-into-object-store-histories")
			}
		}
		if w.Hist%24 == 10 {
			k.BoundaryFiles("blk/")
			k.goit("add", "blk")
			k.goit("commit", "-m", "objects at block boundaries")
		}
		if w.Hist%12 == 5 {
			// a command that fails half-way: a directory whose first file is large and whose last entries cannot be
			// read (a dangling link, a link to a directory). Whatever was staged before the failure must be stored.
			c.Count("C03.unreadable-entry-histories")
			d := pickS(k.R, []string{"pile", "big.d", "src/gen"})
			w.EditRand(d+"/a-first.bin", fmt.Sprint("c03-", w.Hist), int64(1+k.R.IntN(4))<<20)
			w.Write(d+"/b.txt", k.content())
			w.Symlink(d+"/y-dir-link", "..")
			w.Symlink(d+"/z-dangling", "no-such-target")
			k.goit("add", d)
			k.goit("status")
			k.goit("add", ".")
			k.goit("commit", "-m", "after a partly failed add")
			w.Edit("rm", d+"/z-dangling", nil)
			w.Edit("rm", d+"/y-dir-link", nil)
		}
		for i := 0; i < steps; i++ {
			if w.Hist%6 == 3 && (i == 8 || i == 24) && w.State().Repo().HeadCommit() != "" {
				k.TwinProbe()
			}
			k.Step()
			st := w.Steps[len(w.Steps)-1]
			if st.Kind == "goit" {
				r := st.Post.Repo()
				c.Class(fmt.Sprintf("%s|%s|br%d|idx%v|log%v", st.Cmd(), st.Intent["invalid"], min(len(r.Branches), 3), r.IndexPresent, len(r.LogHEAD) > 0))
			}
		}
		// last steps of a few histories: path commands issued with the current directory INSIDE .goit.
		// Goit resolves every path (and the '.goit/' exclusion) against the current directory, so an
		// object file can be staged and removed there. Recorded as an open known finding; the history ends here.
		if w.Hist%10 == 7 {
			ids := gitfmt.SortedKeys(w.State().Repo().Objects)
			if len(ids) > 0 {
				id := ids[k.R.IntN(len(ids))]
				p := "objects/" + id[:2] + "/" + id[2:]
				c.Count("C03.cwd-inside-goit-probes")
				w.GoitIn(".goit", "add", p)
				w.GoitIn(".goit", "rm", p)
			}
		}
	}
	c.RunHistories(n, Registry["C03"].Mons, drive)
	// the same walks in working trees whose absolute path is 4030..4095 bytes long (see core.DeepLen)
	c.RunHistoriesAt(core.DeepBase, c.Pick(66, 660), Registry["C03"].Mons, func(w *core.World) {
		c.Count("C03.long-location-histories")
		drive(w)
	})
}

// ---------------------------------------------------------------------------------------
// C18 — no command crashes or hangs; refused commands change nothing

type C18Mon struct{}

func (C18Mon) After(w *core.World, st *core.Step) {
	if st.Kind != "goit" {
		return
	}
	c := w.C
	c.Oracle("C18.panic")
	if crashed, how := st.Res.Crashed(); crashed {
		sym := panicClass(firstPanicLine(st))
		w.Fail("C18.panic", sym, crashTrigger(st), "%s crashed (%s): %s", st.String(), how, clipS(firstPanicLine(st), 300))
	}
	if strings.Contains(st.Stderr, "WARNING: DATA RACE") {
		c.Oracle("C18.race-report")
		w.Fail("C18.race-report", "data-race", st.Cmd(), "%s: the race detector reported a data race", st.String())
	}
	c.Oracle("C18.exit-code")
	if st.Signal == "" && st.Exit != 0 && st.Exit != 1 && !st.Res.TimedOut {
		w.Fail("C18.exit-code", fmt.Sprintf("exit-%d", st.Exit), st.Cmd(), "%s ended with exit status %d", st.String(), st.Exit)
	}
	c.Oracle("C18.cpu")
	if st.Res.CPUms > 10000 {
		w.Fail("C18.cpu", "cpu-over-10s", st.Cmd(), "%s consumed %d ms of CPU", st.String(), st.Res.CPUms)
	} else if st.Res.Blocked {
		c.Oracle("C18.hang")
		w.Shadow["c18.hang"] = true
		w.Fail("C18.hang", "blocked-for-ever", st.Cmd(), "%s never ended: every thread of the process slept without using CPU over consecutive samples (it waits for something that cannot come): %s", st.String(), clipS(firstGoroutineWait(st.Stderr), 300))
	} else if st.Res.TimedOut {
		c.Inconclusive("wall-clock watchdog fired for " + st.String())
	}
	// (not in a long location, where a command may fail half-way with "file name too long": that is an I/O failure,
	// C16's subject, not a refusal)
	if why, inv := st.Intent["invalid"]; inv && st.Exit != 0 && w.SB.RealRoot == "" {
		c.Oracle("C18.refused-changed")
		if same, d := sameSandbox(st.Pre, st.Post); !same {
			w.Fail("C18.refused-changed", "state-changed", st.Cmd()+":"+why, "%s was constructed as invalid (%s), was refused, but changed %v", st.String(), why, firstN(d, 6))
		}
	}
}

// firstGoroutineWait extracts the blocked goroutines' states from the SIGQUIT dump ("goroutine 7 [chan send]:").
func firstGoroutineWait(stderr string) string {
	var out []string
	for _, ln := range strings.Split(stderr, "\n") {
		if strings.HasPrefix(ln, "goroutine ") && strings.Contains(ln, "[") {
			out = append(out, strings.TrimSuffix(ln, ":"))
		}
		if len(out) >= 6 {
			break
		}
	}
	return strings.Join(out, "; ")
}

func panicClass(line string) string {
	switch {
	case strings.Contains(line, "nil pointer dereference"):
		return "panic:nil-deref"
	case strings.Contains(line, "index out of range"):
		return "panic:index-out-of-range"
	case strings.Contains(line, "slice bounds out of range"):
		return "panic:slice-bounds"
	case strings.Contains(line, "regexp:"):
		return "panic:regexp-compile"
	case strings.Contains(line, "nil map"):
		return "panic:nil-map"
	case strings.HasPrefix(line, "fatal error:"):
		return "fatal"
	case line == "":
		return "signal"
	}
	return "panic:other"
}

func firstPanicLine(st *core.Step) string {
	for _, s := range []string{st.Stderr, st.Stdout} {
		for _, ln := range strings.Split(s, "\n") {
			if strings.HasPrefix(ln, "panic: ") || strings.HasPrefix(ln, "fatal error: ") {
				return ln
			}
		}
	}
	return ""
}

func crashTrigger(st *core.Step) string {
	t := st.Cmd()
	r := st.Pre.Repo()
	switch {
	case !st.Pre.HasGoit():
		t += ":no-repo"
	case len(r.Branches) == 0:
		t += ":no-commit-yet"
	}
	return t
}

// legal single-component branch names with characters that parsers of HEAD / reflog / refs may trip over
var oddBranchNames = []string{"a: b", "x y", "q:r", "émile", "a'b", "semi;colon", "~t", "^c", "ref: refs", "HEAD", "a b: c d", "[br]", "a(b", "日本", "-dash-inside"[1:], "tab-less", "topic ", " lead", "x  ", ".dot", "a.", "%s", "100%", strings.Repeat("L", 200), strings.Repeat("n", 244), strings.Repeat("n", 250), strings.Repeat("n", 255), strings.Repeat("n", 256)}

var subcommands = []string{"init", "add", "rm", "commit", "status", "log", "reflog", "branch", "switch", "reset", "restore", "update-ref", "config", "cat-file", "hash-object", "ls-files", "rev-parse", "write-tree", "version", "help"}

// garbage emits a syntactically odd command line. All of them are "constructed as invalid".
func garbage(k *Walker) {
	r := k.R
	if k.invalid == "" {
		k.invalid = "garbage"
	}
	if r.IntN(6) == 0 {
		// the root command itself, its flags, cobra's built-in commands, flags that exclude each other
		id := strings.Repeat("a", 40)
		if rp := k.W.State().Repo(); rp != nil && len(rp.Objects) > 0 {
			id = gitfmt.SortedKeys(rp.Objects)[r.IntN(len(rp.Objects))]
		}
		root := [][]string{{}, {"-v"}, {"--version"}, {"-t"}, {"--toggle", "-v"}, {"help"}, {"help", "add"}, {"help", "nope"}, {"version"}, {"completion", "bash"}, {"completion"}, {"--nope"}, {"-h"}, {"add", "--help"},
			{"cat-file", "-t", "-p", id}, {"cat-file", id}, {"cat-file", "-p", "-p", id}, {"reset", "--soft", "--hard", "HEAD@{0}"}, {"reset", "--soft", "--mixed", "--hard", "HEAD@{0}"}, {"branch", "--list", "-d", "main"}, {"branch", "-d", "x", "-r", "y"},
			{"switch", "-c"}, {"switch", "-c", "a", "b"}, {"log", "-n"}, {"log", "-n", "-1"}, {"log", "-n", "x"}, {"config"}, {"config", "user.name"}, {"config", "--global"}, {"config", "a", "b"}, {"config", ".", "b"}, {"config", "a.", "b"}, {"config", ".a", "b"}, {"config", "a.b.c", "d"}}
		k.goit(root[r.IntN(len(root))]...)
		return
	}
	sub := pickS(r, subcommands[:18])
	junk := []string{"--nope", "-Z", "--", "", "x", "HEAD@{0}", strings.Repeat("a", 40), "a(", "[", "*", "\\", "--staged", "--hard", "-n", "-m", "--list", "-d", "-r", "--global", "-c", "..", strings.Repeat("z", 300)}
	var args []string
	args = append(args, sub)
	n := r.IntN(4)
	for i := 0; i < n; i++ {
		args = append(args, pickS(r, junk))
	}
	k.goit(args...)
}

func runC18(c *core.Ctx) {
	n := c.Pick(640, 5000)
	steps := c.Pick(40, 50)
	drive := func(w *core.World) {
		wts := hostileWeights()
		wts["hash-object"] = 1
		k := NewWalker(w, gen.NameOpts{Space: true, Meta: true, NonASCII: w.Hist%2 == 0, MaxDepth: 3, N: 6}, wts)
		k.Hostile = 20
		k.Escape = w.Hist%2 == 0
		k.Swap = w.Hist%4 == 0
		k.MsgClass = true
		if w.Hist%6 != 3 { // a sixth of the histories keeps the walker's small pool of odd names and twins
			k.BranchNames = append(k.BranchNames, oddBranchNames...)
		}
		onRace := false
		if c.GoitRace != "" && w.Hist%64 == 1 { // a process under the race detector costs about 100x a plain one: few, focused histories
			w.GoitBin = c.GoitRace // tripwire: race detector + checkptr
			c.Count("C18.histories-on-race-binary")
			onRace = true
		}
		if k.Escape {
			// an existing file right outside the working tree, with a path shorter than the working directory's
			w.Edit("write", "../o", []byte("outside\n"))
		}
		switch w.Hist % 8 {
		case 0: // commands before init, then fresh repository without identity
			for i := 0; i < 4; i++ {
				k.goit(pickS(k.R, subcommands[1:18]))
			}
			k.goit("init")
		case 1: // fresh repo, identity set, probe every command before the first commit
			k.Init()
			for _, a := range []string{"status", "log", "reflog", "branch-create", "switch-c", "branch-list", "reset", "rev-parse", "write-tree", "restore-staged", "commit", "branch-rename", "branch-delete", "update-ref", "ls-files"} {
				k.Do(a)
			}
		case 2: // the emptied snapshot: everything removed and committed
			k.Init()
			for i, p := range k.Pool {
				if i < 3 {
					w.Write(p, k.content())
				}
			}
			k.Do("commit-all")
			if tr := k.tracked(); len(tr) > 0 {
				k.goit(append([]string{"rm"}, tr...)...)
				k.goit("commit", "-m", "emptied")
			}
			for _, a := range []string{"status", "log", "reflog", "commit", "ls-files", "write-tree", "restore-staged", "reset", "branch-create", "switch-c", "status"} {
				k.Do(a)
			}
		case 3: // a renamed branch (zero-id journal records)
			k.Init()
			k.Do("commit-all")
			k.goit("branch", "-r", "renamed")
			for _, a := range []string{"reflog", "status", "log", "reset", "reset", "reflog", "commit-all", "branch-rename", "reflog", "reset"} {
				k.Do(a)
			}
		default:
			k.Init()
			if w.Hist%3 == 0 {
				k.Do("commit-all")
			}
		}
		if w.Hist%6 == 3 || onRace {
			// scale: enough paths for any batching / worker pool a command may use (and, on the race binary, for two
			// workers to touch shared state)
			if !w.State().HasGoit() {
				k.Init()
			}
			big := k.Populate(40 + k.R.IntN(120))
			k.goit("add", ".")
			k.goit("commit", "-m", "many")
			k.PerturbMany(big)
			k.goit("status")
			k.goit("restore", ".")
			k.PerturbMany(big)
			k.goit("add", ".")
			k.goit("status")
			k.goit("commit", "-m", "many again")
			k.goit("log")
			k.goit("reset", "--hard", "HEAD@{1}")
			k.goit("reset", "--mixed", "HEAD@{1}")
			k.goit("restore", "--staged", ".")
			k.goit("rm", "big")
			k.goit("ls-files")
		}
		if w.Hist%8 >= 5 {
			// a user-written ignore file with arbitrary lines: Latin-1 names, metacharacters, blanks, NUL, long lines
			lines := [][]byte{[]byte("caf\xe9.txt"), []byte("a(b/"), []byte("*.[ch]"), []byte(""), []byte("  "), []byte("\x00x"), []byte("**"), []byte("?+"), []byte("dir with space/"), []byte("*.\xff\xfe"), bytes.Repeat([]byte("l"), 5000), []byte("\\"), []byte("a|b"), []byte("^x$"), []byte("{1,2}")}
			var ig []byte
			for j := 0; j < 1+k.R.IntN(4); j++ {
				ig = append(ig, lines[k.R.IntN(len(lines))]...)
				ig = append(ig, '\n')
			}
			w.Write(".goitignore", ig)
			k.goit("status")
			k.goit("add", ".")
		}
		for i := 0; i < steps; i++ {
			if onRace && i >= 5 {
				break
			}
			if w.Shadow["c18.hang"] != nil {
				break // every further command of this history would cost a watchdog period
			}
			if k.chance(12) {
				garbage(k)
			} else {
				k.Step()
			}
			// special states: emptied index committed, renamed branch, removed log
			if i == steps/2 && w.Hist%7 == 3 {
				tr := k.tracked()
				if len(tr) > 0 {
					k.goit(append([]string{"rm"}, tr...)...)
					k.goit("commit", "-m", "emptied")
					k.goit("status")
					k.goit("log")
					k.goit("reset", "--hard", "HEAD@{1}")
				}
			}
			st := w.Steps[len(w.Steps)-1]
			if st.Kind == "goit" {
				r := st.Pre.Repo()
				p := ParseArgv(st.Argv)
				fl := strings.Join(gitfmt.SortedKeys(p.Flags), ",")
				c.Class(fmt.Sprintf("%s|%s|n%d|%s|%s", st.Cmd(), fl, min(len(p.Pos), 3), st.Intent["invalid"], stateClass(r != nil && st.Pre.HasGoit(), len(r.Branches), r.IndexPresent, len(r.LogHEAD))))
			}
		}
	}
	c.RunHistories(n, Registry["C18"].Mons, drive)
	// more arguments in ONE command than any queue, batch or worker pool may be sized for (1100 paths, about 20 KB of argv)
	c.RunHistoriesAt(6_000_000, c.Pick(2, 6), Registry["C18"].Mons, func(w *core.World) {
		k := NewWalker(w, gen.NameOpts{}, nil)
		k.Init()
		var names []string
		for i := 0; i < 1100; i++ {
			names = append(names, fmt.Sprintf("many/f%04d.txt", i))
		}
		w.EditMany(names, int64(w.Hist))
		for _, cmd := range [][]string{{"hash-object"}, {"add"}, {"restore", "--staged"}, {"add"}, {"commit", "-m", "1100 files"}, {"hash-object"}, {"rm"}, {"restore", "--staged"}, {"restore"}, {"add"}, {"cat-file", "-p"}, {"branch"}, {"rev-parse"}} {
			if cmd[0] == "commit" {
				k.goit(cmd...)
				continue
			}
			k.goit(append(append([]string{}, cmd...), names...)...)
			c.Count("C18.commands-with-1100-arguments")
		}
	})
	// the same walks in working trees whose absolute path is 4030..4095 bytes long (see core.DeepLen)
	c.RunHistoriesAt(core.DeepBase, c.Pick(66, 660), Registry["C18"].Mons, func(w *core.World) {
		c.Count("C18.long-location-histories")
		drive(w)
	})
}

func stateClass(hasRepo bool, nbr int, idxp bool, nlog int) string {
	if !hasRepo {
		return "no-repo"
	}
	if nbr == 0 {
		if idxp {
			return "staged-no-commit"
		}
		return "fresh"
	}
	if nbr == 1 {
		return "one-branch"
	}
	return "branches"
}

func init() {
	register(&Prop{ID: "C03", Level: "exploration",
		Rule:   "seeded hostile random histories (life-cycle commands mixed with unknown/blob/tree ids to update-ref, branch names with '/', '..', separators, reflog positions in and out of range, resets after renames, '.', '.goit' as path arguments); after EVERY command an independent fsck of .goit plus an object-immutability comparison with the pre-state; distinct = (command, hostile-argument class, abstract repo state) triples observed",
		Mons:   func() []core.Monitor { return []core.Monitor{C03Mon{}} },
		Run:    runC03,
		Floors: []core.Floor{{Key: "C03.fsck", Min: 1000}, {Key: "cmd:update-ref", Min: 50}, {Key: "cmd:reset", Min: 50}, {Key: "cmd:branch", Min: 100}},
	})
	register(&Prop{ID: "C18", Level: "exploration",
		Rule:   "all sub-commands x flag combinations x argument lists (valid, missing, surplus, malformed, regexp metacharacters) on states reached by random histories incl. no repository, fresh repository, emptied snapshot, renamed branch; per command: no panic/fatal text, exit status in {0,1}, CPU <= 10 s (rusage), and for commands constructed as invalid that were refused: whole sandbox byte-identical; distinct = (sub-command, flag set, #args, invalid-class, state class) tuples",
		Mons:   func() []core.Monitor { return []core.Monitor{C18Mon{}} },
		Run:    runC18,
		Floors: []core.Floor{{Key: "C18.panic", Min: 3000}, {Key: "C18.refused-changed", Min: 200}},
	})
}
