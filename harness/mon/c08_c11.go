package mon

import (
	"bytes"
	"fmt"
	"path"
	"regexp"
	"strconv"
	"strings"

	"verif/harness/core"
	"verif/harness/gen"
	"verif/harness/gitfmt"
	"verif/harness/sandbox"
)

// lastReflog remembers the reflog listing printed for a given sandbox state.
type reflogObs struct {
	digest  string
	entries []ReflogEntry
	bad     []string
	exit    int
}

func observeReflog(w *core.World, st *core.Step) {
	if st.Kind == "goit" && st.Cmd() == "reflog" && len(st.Argv) == 1 {
		es, bad := ParseReflog(st.Stdout)
		w.Shadow["reflogObs"] = &reflogObs{digest: st.Post.Digest(), entries: es, bad: bad, exit: st.Exit}
	}
}

func everTracked(w *core.World) map[string]bool {
	m, _ := w.Shadow["everTracked"].(map[string]bool)
	if m == nil {
		m = map[string]bool{}
		w.Shadow["everTracked"] = m
	}
	return m
}

func observeTracked(w *core.World, st *core.Step) {
	if st.Kind != "goit" || !st.Post.HasGoit() {
		return
	}
	et := everTracked(w)
	if m, ok := idx(st.Post); ok {
		for p := range m {
			et[p] = true
		}
	}
	if m, ok := idx(st.Pre); ok {
		for p := range m {
			et[p] = true
		}
	}
}

var resetArgRe = regexp.MustCompile(`^HEAD@\{(\d+)\}$`)

// resolvePrefix finds the unique commit object whose id starts with the 7-hex prefix.
func resolvePrefix(r *sandbox.Repo, prefix string) (string, string) {
	var found []string
	for id, oi := range r.Objects {
		if strings.HasPrefix(id, prefix) && oi.Err == nil && oi.Obj.Kind == "commit" {
			found = append(found, id)
		}
	}
	switch len(found) {
	case 1:
		return found[0], ""
	case 0:
		return "", "no commit with prefix " + prefix
	default:
		return "", "ambiguous prefix " + prefix
	}
}

// checkReset evaluates the reset oracles; prop is "C08" (all oracles) or "C11" (target only).
func checkReset(w *core.World, st *core.Step, prop string) {
	c := w.C
	pa := ParseArgv(st.Argv)
	if !pa.OnlyFlags("--soft", "--mixed", "--hard") {
		return
	}
	pre, post := st.Pre.Repo(), st.Post.Repo()
	if !pre.HeadOK {
		return
	}
	modes := 0
	mode := "mixed"
	for _, m := range []string{"soft", "mixed", "hard"} {
		if _, ok := pa.Flag("--" + m); ok {
			modes++
			mode = m
		}
	}
	if modes > 1 {
		c.Count(prop + ".reset-several-mode-flags")
		return
	}
	obs, _ := w.Shadow["reflogObs"].(*reflogObs)
	refuse := func(why string) {
		c.Oracle(prop + ".refusal-frame")
		if st.Exit == 0 {
			w.Fail(prop+".refusal-frame", "invalid-accepted", why, "%s should be refused (%s) but exited 0", st.String(), why)
		}
		if same, d := sameSandbox(st.Pre, st.Post); !same {
			w.Fail(prop+".refusal-frame", "state-changed", why, "%s should be refused (%s) but changed %v", st.String(), why, firstN(d, 6))
		}
	}
	if len(pa.Pos) != 1 {
		if prop == "C08" {
			refuse("arity")
		}
		return
	}
	m := resetArgRe.FindStringSubmatch(pa.Pos[0])
	if m == nil {
		if prop == "C08" {
			refuse("malformed-argument")
		}
		return
	}
	n, err := strconv.Atoi(m[1])
	if err != nil {
		return
	}
	if obs == nil || obs.digest != st.Pre.Digest() {
		c.Count(prop + ".reset-without-fresh-reflog")
		return
	}
	if obs.exit != 0 || len(obs.bad) > 0 {
		if len(pre.LogHEAD) == 0 && prop == "C08" {
			refuse("no-journal")
		}
		return
	}
	for i, e := range obs.entries {
		if e.N != i {
			return // listing not numbered as expected: C11's concern
		}
	}
	if n >= len(obs.entries) {
		if prop == "C08" {
			refuse("position-out-of-range")
		}
		return
	}
	e := obs.entries[n]
	posClass := "in-range"
	if n >= 10 {
		posClass = "two-digit"
	}
	if e.Prefix == "0000000" {
		// shown as seven zeros: the entry names no commit (forty zeros in the journal) -- or a commit whose id happens to
		// begin with seven zeros. The journal file itself, decoded independently, tells which.
		zero := true
		if i := len(pre.LogHEAD) - 1 - n; i >= 0 && i < len(pre.LogHEAD) {
			if f := strings.SplitN(pre.LogHEAD[i], " ", 3); len(f) == 3 && gitfmt.IsHex40(f[1]) && f[1] != strings.Repeat("0", 40) {
				zero = false
			}
		}
		if zero {
			// refusing without change is what is left
			if prop == "C08" {
				refuse("zero-id-entry")
			}
			return
		}
	}
	target, why := resolvePrefix(pre, e.Prefix)
	if target == "" {
		c.Inconclusive(why)
		return
	}
	head := pre.HeadBranch
	// valid position: must be accepted
	c.Oracle(prop + ".valid-position-refused")
	if st.Exit != 0 {
		// for --hard a type conflict between the snapshot and the working tree makes the reset impossible as stated
		if mode == "hard" && hardTypeConflict(pre, st.Pre, target) {
			c.Count(prop + ".hard-type-conflict")
			return
		}
		w.Fail(prop+".valid-position-refused", "valid-refused", posClass+"|"+mode, "%s: reflog shows %s at position %d but the reset was refused: %s", st.String(), e.Prefix, n, clipS(firstLine(st.Stdout+st.Stderr), 160))
		if prop == "C08" {
			if same, d := sameSandbox(st.Pre, st.Post); !same {
				w.Fail("C08.refusal-frame", "state-changed", "failed-reset|"+mode, "%s failed but changed %v", st.String(), firstN(d, 6))
			}
		}
		return
	}
	c.Oracle(prop + ".target")
	if got := post.Branches[head]; got != target {
		w.Fail(prop+".target", "wrong-commit", posClass+"|"+mode, "%s: reflog shows %s at position %d but branch %q now names %s", st.String(), e.Prefix, n, head, short(got))
	}
	if prop != "C08" {
		return
	}
	c.Oracle("C08.frame-branches")
	if post.HeadRaw != pre.HeadRaw {
		w.Fail("C08.frame-branches", "head-changed", mode, "%s changed HEAD from %q to %q", st.String(), pre.HeadRaw, post.HeadRaw)
	}
	for b, v := range pre.Branches {
		if b != head && post.Branches[b] != v {
			w.Fail("C08.frame-branches", "other-branch-changed", mode, "%s changed branch %q", st.String(), b)
		}
	}
	for b := range post.Branches {
		if _, was := pre.Branches[b]; !was {
			w.Fail("C08.frame-branches", "branch-appeared", mode, "%s created branch %q", st.String(), b)
		}
	}
	idx0, ok0 := pre.Idx()
	idx1, ok1 := post.Idx()
	if !ok0 {
		return
	}
	snap, serr := pre.SnapOf(target)
	wtChanged := wtDiff(st.Pre, st.Post)
	nbr := min(len(pre.Branches), 3)
	c.Class(fmt.Sprintf("C08|%s|%s|%s|br%d", mode, posClass, wtPerturbation(st.Pre), nbr))
	switch mode {
	case "soft":
		c.Oracle("C08.soft")
		if !ok1 || !EqualMaps(idx0, idx1) {
			w.Fail("C08.soft", "index-changed", mode, "%s changed the staging area: %s", st.String(), DiffMaps(idx0, idx1))
		}
		if len(wtChanged) > 0 {
			w.Fail("C08.soft", "worktree-changed", mode, "%s changed working files %v", st.String(), firstN(wtChanged, 5))
		}
	case "mixed":
		c.Oracle("C08.mixed")
		if serr == nil && (!ok1 || !EqualMaps(snap, idx1)) {
			w.Fail("C08.mixed", "index-differs", mode, "after %s the staging area is not the snapshot of %s: %s", st.String(), short(target), DiffMaps(snap, idx1))
		}
		if len(wtChanged) > 0 {
			w.Fail("C08.mixed", "worktree-changed", mode, "%s changed working files %v", st.String(), firstN(wtChanged, 5))
		}
	case "hard":
		c.Oracle("C08.mixed")
		if serr == nil && (!ok1 || !EqualMaps(snap, idx1)) {
			w.Fail("C08.mixed", "index-differs", mode, "after %s the staging area is not the snapshot of %s: %s", st.String(), short(target), DiffMaps(snap, idx1))
		}
		if serr == nil {
			c.Oracle("C08.hard-files")
			wt1 := st.Post.WT()
			for p, id := range snap {
				o, okb := pre.Obj(id)
				if !okb {
					continue
				}
				got, on := wt1[p]
				if !on {
					w.Fail("C08.hard-files", "file-missing", wtPerturbation(st.Pre), "after %s %q of the target snapshot does not exist", st.String(), p)
				} else if !bytes.Equal(got, o.Body) {
					w.Fail("C08.hard-files", "file-differs", wtPerturbation(st.Pre), "after %s %q does not have the committed bytes", st.String(), p)
				}
			}
		}
		// a directory the command (re-)created must be one its files can be reached in: the owner may read, write and search it
		for d, m := range st.Post.Modes {
			if _, before := st.Pre.Modes[d]; !before && st.Post.Dirs[d] && strings.HasPrefix(d, "w/") && !strings.HasPrefix(d, "w/.goit") {
				w.Fail("C08.hard-files", "directory-not-usable", wtPerturbation(st.Pre), "after %s the directory %q has the mode %o: nobody but the superuser can reach the files of the snapshot in it", st.String(), strings.TrimPrefix(d, "w/"), m)
			}
		}
		c.Oracle("C08.hard-never-tracked")
		et := everTracked(w)
		wt0, wt1 := st.Pre.WT(), st.Post.WT()
		for p, b := range wt0 {
			if et[p] {
				continue
			}
			if serr == nil {
				if _, inSnap := snap[p]; inSnap {
					continue
				}
			}
			nb, still := wt1[p]
			if !still || !bytes.Equal(nb, b) {
				w.Fail("C08.hard-never-tracked", "never-tracked-file-touched", mode, "%s touched %q which was never tracked", st.String(), p)
			}
		}
	}
}

func hardTypeConflict(r *sandbox.Repo, sn *sandbox.Snap, target string) bool {
	snap, err := r.SnapOf(target)
	if err != nil {
		return true
	}
	if HasConflict(snap) {
		return true // the snapshot itself holds p and p/q: its files cannot all exist
	}
	for p := range snap {
		if IsDirOnDisk(sn, p) {
			return true
		}
		for d := p; strings.Contains(d, "/"); {
			d = d[:strings.LastIndex(d, "/")]
			if IsFileOnDisk(sn, d) {
				return true
			}
		}
	}
	return false
}

func wtPerturbation(sn *sandbox.Snap) string {
	idx0, ok := idx(sn)
	if !ok {
		return "?"
	}
	wt := sn.WT()
	mod, del, untr := false, false, false
	for p, id := range idx0 {
		b, on := wt[p]
		if !on {
			del = true
		} else if gitfmt.BlobID(b) != id {
			mod = true
		}
	}
	for p := range wt {
		if _, tr := idx0[p]; !tr {
			untr = true
		}
	}
	return fmt.Sprintf("mod%v-del%v-untr%v", mod, del, untr)
}

type C08Mon struct{}

func (C08Mon) After(w *core.World, st *core.Step) {
	observeTracked(w, st)
	if st.Kind == "goit" && st.Cmd() == "reset" && st.Pre.HasGoit() {
		checkReset(w, st, "C08")
	}
	observeReflog(w, st)
}

func (k *Walker) resetWithReflog(hostilePct int) {
	k.goit("reflog")
	n := k.reflogLen()
	mode := pickS(k.R, []string{"--soft", "--mixed", "--hard", "--hard", ""})
	var arg string
	if k.chance(hostilePct) {
		k.invalid = "bad-reflog-position"
		arg = pickS(k.R, []string{fmt.Sprintf("HEAD@{%d}", n), fmt.Sprintf("HEAD@{%d}", n+1), "HEAD@{99}", "HEAD@{-1}", "HEAD@{}", "HEAD@{a}", "HEAD@1", "xHEAD@{1}y", "HEAD@{1}{2}", "HEAD@{ 1}", "head@{0}",
			"HEAD@{4294967296}", "HEAD@{9223372036854775808}", "HEAD@{18446744073709551615}", "HEAD@{18446744073709551617}", "HEAD@{99999999999999999999999}", fmt.Sprintf("HEAD@{%d}", n+10), fmt.Sprintf("HEAD@{%d}", n+20)})
	} else if n > 0 {
		// prefer deep positions sometimes so that two-digit positions are reached
		if n > 10 && k.chance(40) {
			arg = k.posArg(10 + k.R.IntN(n-10))
		} else {
			arg = k.posArg(k.R.IntN(n))
		}
	} else {
		k.invalid = "no-reflog"
		arg = "HEAD@{0}"
	}
	args := []string{"reset"}
	if mode != "" {
		args = append(args, mode)
	}
	args = append(args, arg)
	k.goit(args...)
}

func runC08(c *core.Ctx) {
	n := c.Pick(500, 4000)
	c.RunHistories(n, Registry["C08"].Mons, func(w *core.World) {
		wts := map[string]int{
			"edit-twin-file": 4, "edit-mod-old": 3, "edit-new": 10, "edit-copy": 2, "edit-copydir": 1, "edit-mod": 12, "edit-rm": 6, "edit-rmdir": 4,
			"add": 10, "commit-all": 10, "commit": 4, "rm": 2,
			"switch": 4, "switch-c": 3, "branch-create": 2, "branch-rename": 1,
		}
		k := NewWalker(w, gen.NameOpts{Space: w.Hist%2 == 0, NonASCII: w.Hist%5 == 0, MaxDepth: 4, N: 6}, wts)
		if w.Hist%3 == 2 {
			k.Enable("edit-link-over", 5) // reset --hard must not write through a link at a tracked path
		}
		k.Hostile = 3
		k.MaxContent = 3000
		k.Init()
		if c.GoitVFS != "" && (w.Hist == 6 || (c.Thorough() && w.Hist%700 == 6)) {
			// a commit whose id begins with seven zeros (what listings show for "no commit"): with the clock pinned the
			// root commit of this tiny repository has a mined message that gives it such an id
			oldBin := w.GoitBin
			w.GoitBin = c.GoitVFS
			w.Env = map[string]string{"VERIF_NOW": "1700000000"}
			w.Write("a.txt", []byte("two\n"))
			k.goit("add", "a.txt")
			k.goit("commit", "-m", "nonce 21966968")
			if strings.HasPrefix(w.State().Repo().HeadCommit(), "0000000") {
				c.Count("C08.commit-id-with-seven-leading-zeros")
			}
			w.GoitBin = oldBin
			w.Env = nil
			k.goit("switch", "-c", "side")
			w.Write("a.txt", []byte("three\n"))
			k.Do("commit-all")
			w.Write("a.txt", []byte("scribble\n"))
			k.goit("reflog")
			k.goit("reset", "--hard", "HEAD@{1}")
			k.goit("reflog")
			k.goit("reset", "--mixed", "HEAD@{3}")
			k.goit("reflog")
			k.goit("reset", "--soft", "HEAD@{0}")
		}
		ncommits := 2 + w.Rng.IntN(5)
		if w.Hist%6 == 0 {
			ncommits = 11 + w.Rng.IntN(3) // journal long enough for positions >= 10
		}
		for i := 0; i < ncommits; i++ {
			w.Write(k.freshPath(), k.content())
			if i > 0 && k.chance(50) {
				k.Do("edit-mod")
			}
			if i > 1 && k.chance(20) {
				k.Do("rm")
			}
			k.Do("commit-all")
			if k.chance(20) {
				k.Do("switch-c")
			}
		}
		if w.Hist%12 == 6 {
			// reset issued from a sub-directory of the working tree that holds files with the same relative names as
			// tracked files at the top (and the bytes of the target snapshot): the snapshot is restored at the root
			a, b := k.content(), append([]byte("changed\n"), k.content()...)
			w.Write("twin.txt", a)
			w.Write("sub dir/twin.txt", a)
			w.Write("sub dir/inner/twin.txt", a)
			k.Do("commit-all")
			w.Write("twin.txt", b)
			k.Do("commit-all")
			k.goit("reflog")
			w.GoitIn(pickS(k.R, []string{"sub dir", "sub dir/inner"}), "reset", pickS(k.R, []string{"--hard", "--hard", "--mixed", "--soft"}), "HEAD@{1}")
			k.goit("reflog")
			w.GoitIn("sub dir", "reset", "--hard", "HEAD@{1}")
			c.Count("C08.resets-from-a-subdirectory")
		}
		if w.Hist%9 == 4 {
			// a commit whose snapshot is empty (everything removed), with ordinary commits before and after it
			if tr := k.tracked(); len(tr) > 0 {
				k.goit(append([]string{"rm"}, tr...)...)
				k.goit("commit", "-m", "emptied")
				w.Write(k.freshPath(), k.content())
				w.Write(k.freshPath(), k.content())
				k.Do("commit-all")
				c.Count("C08.histories-with-empty-snapshot")
			}
		}
		var big []string
		if w.Hist%10 == 7 {
			// scale: snapshots of 33..150 files (not a multiple of any worker count), most of them changed before the reset
			big = k.Populate(33 + k.R.IntN(118))
			k.Do("commit-all")
			w.Write(k.freshPath(), k.content())
			k.Do("commit-all")
		}
		steps := c.Pick(18, 24)
		for i := 0; i < steps; i++ {
			if big != nil && i%6 == 1 {
				k.PerturbMany(big)
				if k.chance(50) {
					k.goit("add", ".")
				}
				k.resetWithReflog(22)
				continue
			}
			if k.chance(35) {
				// perturb the working tree, then reset
				for j := 0; j < k.R.IntN(4); j++ {
					k.Do(pickS(k.R, []string{"edit-mod", "edit-rm", "edit-rmdir", "edit-new", "edit-new"}))
				}
				if w.Hist%3 == 1 && k.chance(40) {
					// a directory (holding never-tracked files) where a tracked file belongs, or a file where a directory belongs
					k.Swap = true
					k.Do("edit-swap")
				}
				// also perturb the staging area so that it differs from HEAD's snapshot
				for j := 0; j < k.R.IntN(3); j++ {
					k.Do(pickS(k.R, []string{"add", "rm", "add"}))
				}
				k.resetWithReflog(22)
			} else {
				k.Step()
			}
		}
	})
}

// ---------------------------------------------------------------------------------------
// C11 — reflog is a faithful append-only journal

type C11Mon struct{}

type c11State struct {
	prev     []ReflogEntry
	havePrev bool
	adds     int    // journal-adding commands that succeeded since prev
	renames  int    // renames/deletes since prev (entries added: unspecified)
	lastKind string // kind of the last journal-adding command since prev ("" if a rename came after it)
	msgClass string
	lastMsg  string // message of that command if it was a commit
}

func journalKind(st *core.Step) string {
	if st.Exit != 0 {
		return ""
	}
	pa := ParseArgv(st.Argv)
	switch st.Cmd() {
	case "commit":
		return "commit"
	case "switch":
		return "checkout"
	case "reset":
		if len(pa.Pos) == 1 {
			return "reset"
		}
	}
	return ""
}

func (C11Mon) After(w *core.World, st *core.Step) {
	if st.Kind != "goit" || !st.Post.HasGoit() {
		return
	}
	c := w.C
	s, _ := w.Shadow["c11"].(*c11State)
	if s == nil {
		s = &c11State{}
		w.Shadow["c11"] = s
	}
	if st.Cmd() == "reset" && st.Pre.HasGoit() {
		checkReset(w, st, "C11") // reset and reflog resolve position n to the same entry
	}
	observeReflog(w, st)
	if k := journalKind(st); k != "" {
		// the record itself: "<old id> <new id> <name> <<email>> <seconds> <zone>\t<kind>: ...", the zone as sign and four digits
		if raw := st.Post.GoitFiles()["logs/HEAD"]; len(raw) > len(st.Pre.GoitFiles()["logs/HEAD"]) {
			lines := strings.Split(strings.TrimSuffix(string(raw), "\n"), "\n")
			head, _, _ := strings.Cut(lines[len(lines)-1], "\t")
			f := strings.Fields(head)
			c.Oracle("C11.record-zone")
			if len(f) >= 2 {
				if zone := f[len(f)-1]; !journalZoneRe.MatchString(zone) {
					w.Fail("C11.record-zone", "zone-malformed", "tz:"+tzClass(st.TZ), "after %s the journal record ends with the zone %q (process zone %s)", st.String(), zone, path.Base(st.TZ))
				} else if k == "commit" {
					if o, ok := st.Post.Repo().Obj(st.Post.Repo().HeadCommit()); ok {
						if m := committerZoneRe.FindSubmatch(o.Body); m != nil && string(m[1]) != zone {
							w.Fail("C11.record-zone", "zone-differs-from-commit", "tz:"+tzClass(st.TZ), "after %s the journal record says zone %q, the commit object %q", st.String(), zone, m[1])
						}
					}
				}
			}
		}
		// did the command really change/touch the journal target? every successful one adds an entry
		s.adds++
		s.lastKind = k
		s.lastMsg = ""
		if k == "commit" {
			pa := ParseArgv(st.Argv)
			if m, ok := pa.Flag("-m", "--message"); ok {
				s.msgClass = messageClass(m)
				s.lastMsg = m
			}
		}
		return
	}
	if st.Cmd() == "branch" && st.Exit == 0 {
		pa := ParseArgv(st.Argv)
		if _, r := pa.Flag("-r", "--rename"); r {
			s.renames++
			s.lastKind = ""
		}
		if _, d := pa.Flag("-d", "--delete"); d {
			s.renames++ // counts as "unspecified number of entries" (none expected, any accepted)
		}
		return
	}
	if st.Cmd() != "reflog" || len(st.Argv) != 1 {
		return
	}
	post := st.Post.Repo()
	trig := "none"
	if s.renames > 0 {
		trig = "after-rename-or-delete"
	} else if s.msgClass != "" {
		trig = "message:" + s.msgClass
	}
	c.Oracle("C11.reflog-exit")
	if len(post.LogHEAD) > 0 && st.Exit != 0 {
		w.Fail("C11.reflog-exit", "reflog-fails", trig, "reflog exits %d although a journal with %d lines exists: %s", st.Exit, len(post.LogHEAD), clipS(firstLine(st.Stdout+st.Stderr), 200))
		s.havePrev = false
		s.adds, s.renames, s.lastKind, s.msgClass = 0, 0, "", ""
		return
	}
	if st.Exit != 0 {
		return
	}
	es, bad := ParseReflog(st.Stdout)
	if len(bad) > 0 {
		w.Fail("C11.suffix", "unparsable-line", trig, "reflog prints a line that is not '<7hex> [(refs)] HEAD@{n}: kind: text': %q", clipS(bad[0], 120))
	}
	for i, e := range es {
		if e.N != i {
			w.Fail("C11.suffix", "misnumbered", trig, "reflog line %d is numbered HEAD@{%d}", i, e.N)
			break
		}
	}
	c.Class(fmt.Sprintf("C11|%s|%s|len%d", s.lastKind, trig, bucket(len(es))))
	if s.havePrev {
		c.Oracle("C11.suffix")
		old := s.prev
		switch {
		case s.renames == 0 && len(es) != len(old)+s.adds:
			sym := "entry-missing"
			if len(es) > len(old)+s.adds {
				sym = "entry-extra"
			}
			w.Fail("C11.suffix", sym, trig, "%d journal-adding commands succeeded since the previous listing (%d entries) but reflog now shows %d entries", s.adds, len(old), len(es))
		case len(es) < len(old)+s.adds:
			w.Fail("C11.suffix", "entry-missing", trig, "%d journal-adding commands (+%d renames/deletes) since the previous listing (%d entries) but reflog now shows %d", s.adds, s.renames, len(old), len(es))
		default:
			off := len(es) - len(old)
			for i, o := range old {
				n := es[off+i]
				if n.Prefix != o.Prefix || n.Kind != o.Kind || n.Text != o.Text {
					w.Fail("C11.suffix", "old-entry-changed", trig, "entry that was HEAD@{%d} (%s %s: %s) is now HEAD@{%d} (%s %s: %s)", i, o.Prefix, o.Kind, clipS(o.Text, 40), off+i, n.Prefix, n.Kind, clipS(n.Text, 40))
					break
				}
			}
		}
	}
	if s.adds > 0 && s.lastKind != "" && len(es) > 0 {
		c.Oracle("C11.entry0")
		hc := post.HeadCommit()
		if es[0].Kind != s.lastKind || !strings.HasPrefix(hc, es[0].Prefix) {
			w.Fail("C11.entry0", "entry0-wrong", trig, "after a successful %s HEAD resolves to %s but HEAD@{0} is %s %s: %s", s.lastKind, short(hc), es[0].Prefix, es[0].Kind, clipS(es[0].Text, 60))
		} else if s.lastKind == "commit" && plainJournalMessage(s.lastMsg) && es[0].Text != s.lastMsg {
			// a faithful journal: for a one-line message of plain printable characters the entry reads back what was given
			w.Fail("C11.entry0", "entry0-text-differs", "message:plain-one-line", "after `commit -m %q` HEAD@{0} reads %q", s.lastMsg, clipS(es[0].Text, 120))
		}
	}
	s.prev, s.havePrev = es, true
	s.adds, s.renames, s.lastKind, s.msgClass, s.lastMsg = 0, 0, "", "", ""
}

// plainJournalMessage: one line of printable ASCII (a carriage return may end it) without the separators the journal line itself uses (": ", tab)
// and without blanks at the ends -- the class for which what the journal shows is not open to interpretation.
func plainJournalMessage(m string) bool {
	m = strings.TrimSuffix(m, "\r") // a carriage return at the end is part of what was given, and of what reads back
	if m == "" || strings.Contains(m, ": ") || strings.TrimSpace(m) != m || strings.Contains(m, "  ") {
		return false
	}
	for _, r := range m {
		if r < 0x20 || r > 0x7e {
			return false
		}
	}
	return true
}

func bucket(n int) int {
	switch {
	case n < 3:
		return n
	case n < 10:
		return 5
	case n < 20:
		return 10
	}
	return 20
}

func messageClass(m string) string {
	var cs []string
	if strings.Contains(m, ": ") {
		cs = append(cs, "colon-space")
	}
	if strings.Contains(m, "\t") {
		cs = append(cs, "tab")
	}
	if strings.Contains(m, "\n") {
		cs = append(cs, "multi-line")
		for _, ln := range strings.Split(m, "\n")[1:] {
			if len(strings.Fields(ln)) >= 3 {
				cs = append(cs, "3words")
				break
			}
		}
	}
	if strings.HasPrefix(m, " ") || strings.HasSuffix(m, " ") {
		cs = append(cs, "blanks")
	}
	for _, r := range m {
		if r > 127 {
			cs = append(cs, "non-ascii")
			break
		}
	}
	if len(m) > 1024 {
		cs = append(cs, "kib")
	}
	if len(cs) == 0 {
		return "plain"
	}
	return strings.Join(cs, "+")
}

func runC11(c *core.Ctx) {
	n := c.Pick(500, 4000)
	tzs, err := gen.WriteTZFiles(c.Scratch + "/tz")
	if err != nil {
		c.Broken("tz files: " + err.Error())
		return
	}
	offs := gen.TZOffsets()
	c.RunHistories(n, Registry["C11"].Mons, func(w *core.World) {
		wts := map[string]int{
			"edit-new": 8, "edit-copy": 2, "edit-copydir": 1, "edit-mod": 8, "add": 8, "commit-all": 16, "commit": 4,
			"switch": 8, "switch-c": 6, "branch-create": 3, "branch-rename": 4, "branch-delete": 3,
			"reflog": 10, "status": 1,
		}
		k := NewWalker(w, gen.NameOpts{Space: w.Hist%2 == 0, MaxDepth: 2, N: 4}, wts)
		k.Hostile = 4
		k.MsgClass = true
		k.BranchNames = append(k.BranchNames, "HEAD", "HEAD", "refs", "logs", "heads")
		w.TZ = tzs[offs[w.Rng.IntN(len(offs))]]
		w.Goit("init")
		name, email, icl := gen.Identity(w.Rng)
		if w.Hist%9 == 4 {
			// a tab inside the name: the journal line separates its fields with blanks and ONE tab in front of the message
			name, icl = pickS(w.Rng, []string{"Ada\tLovelace", "tab\tin\tname", "\tlead"}), "tab"
		}
		w.Goit("config", "user.name", name)
		w.Goit("config", "user.email", email)
		c.Class("C11.identity|" + icl)
		if w.Hist == 2 || (c.Thorough() && w.Hist%400 == 2) {
			// a journal of several hundred entries: positions with three digits, the 255th / 256th entry
			k.LongHistory(270)
			k.goit("reflog")
			for _, pos := range []int{9, 10, 99, 100, 101, 254, 255, 256, 257, 269} {
				k.goit("reset", pickS(k.R, []string{"--soft", "--mixed", "--hard"}), fmt.Sprintf("HEAD@{%d}", pos))
				k.goit("reflog")
			}
		}
		steps := c.Pick(34, 40)
		for i := 0; i < steps; i++ {
			if k.chance(20) && k.reflogLen() > 0 {
				k.resetWithReflog(10)
				k.goit("reflog")
			} else {
				k.Step()
				st := w.Steps[len(w.Steps)-1]
				if st.Kind == "goit" && (journalKind(st) != "" || st.Cmd() == "branch") {
					k.goit("reflog")
				}
			}
			if k.chance(5) {
				w.TZ = tzs[offs[w.Rng.IntN(len(offs))]]
			}
		}
	})
}

func init() {
	register(&Prop{ID: "C08", Level: "exploration",
		Rule:   "seeded histories with 2-13 commits on 1-3 branches, switches, renames and earlier resets; before each reset the working tree is perturbed (modify, delete, rmdir, new untracked files) and `reflog` is parsed; reset in all three modes to valid positions (incl. n>=10) and to out-of-range / malformed spellings; oracle: branch == the commit reflog displays at n, HEAD and other branches unchanged, soft/mixed/hard effects on staging area and working files, never-tracked files untouched, invalid => refused and sandbox byte-identical; distinct = (mode, position class, working-tree perturbation class, #branches)",
		Mons:   func() []core.Monitor { return []core.Monitor{C08Mon{}} },
		Run:    runC08,
		Floors: []core.Floor{{Key: "C08.target", Min: 150}, {Key: "C08.refusal-frame", Min: 40}, {Key: "C08.hard-files", Min: 40}},
	})
	register(&Prop{ID: "C11", Level: "exploration",
		Rule:   "seeded histories of commit/switch/switch -c/reset/branch rename/delete with commit messages from every class of the quantifier (': ', tabs, several lines, lines of >=3 words, leading/trailing blanks, blank lines, non-ASCII, KiB-long lines, log look-alikes), identities with spaces/non-ASCII/punctuation and a process TZ drawn from all quarter-hour offsets; `reflog` is parsed after every such command: HEAD@{0} == (HEAD's commit, kind), the previous listing is a suffix shifted by exactly the number of entries added, reflog exits 0 whenever a journal exists, and reset HEAD@{n} lands on the commit reflog displays at n; distinct = (command kind, message class / rename, journal length bucket)",
		Mons:   func() []core.Monitor { return []core.Monitor{C11Mon{}} },
		Run:    runC11,
		Floors: []core.Floor{{Key: "C11.suffix", Min: 800}, {Key: "C11.entry0", Min: 500}, {Key: "C11.target", Min: 60}},
	})
}

// posArg spells a journal position; one in seven with leading zeros (the journal numbers its entries in decimal:
// HEAD@{010} is the tenth, HEAD@{08} the eighth entry).
func (k *Walker) posArg(pos int) string {
	if k.chance(15) {
		k.W.C.Class("arg:reset:zero-padded-position")
		return fmt.Sprintf("HEAD@{%0*d}", len(fmt.Sprint(pos))+1+k.R.IntN(2), pos)
	}
	return fmt.Sprintf("HEAD@{%d}", pos)
}

var journalZoneRe = regexp.MustCompile(`^[+-][0-9]{4}$`)
var committerZoneRe = regexp.MustCompile(`(?m)^committer .* [0-9]+ ([+-][0-9]{4})$`)

// tzClass: the kind of offset a synthetic zone file name stands for (whole hour or not, sign).
func tzClass(tz string) string {
	b := path.Base(tz)
	switch {
	case tz == "" || tz == "UTC":
		return "utc"
	case strings.Contains(b, "m"):
		return "negative"
	}
	return "other"
}
