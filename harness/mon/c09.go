package mon

import (
	"bytes"
	"fmt"
	"sort"
	"strings"

	"verif/harness/core"
	"verif/harness/gen"
)

type C09Mon struct{}

func nameRelation(sel []string, all map[string]string, arg string) string {
	// does another tracked name contain / extend the argument without lying beneath it?
	rel := "none"
	for p := range all {
		if p == arg || strings.HasPrefix(p, arg+"/") {
			continue
		}
		if strings.HasPrefix(p, arg) {
			rel = "prefix-of-other"
		} else if strings.Contains(p, arg+"/") || strings.Contains(p, arg) {
			if rel == "none" {
				rel = "substring-of-other"
			}
		}
	}
	if strings.ContainsAny(arg, "()[]*?|^${}+.") {
		rel += "+meta"
	}
	return rel
}

func (C09Mon) After(w *core.World, st *core.Step) {
	if st.Kind != "goit" || st.Cmd() != "restore" || !st.Pre.HasGoit() {
		return
	}
	c := w.C
	pa := ParseArgv(st.Argv)
	_, staged := pa.Flag("--staged")
	if !pa.OnlyFlags("--staged") || len(pa.Pos) == 0 {
		return
	}
	if st.Cwd != "" {
		checkRestoreFromSubdir(w, st, pa.Pos, staged)
		return
	}
	pre, post := st.Pre.Repo(), st.Post.Repo()
	idx0, ok0 := pre.Idx()
	if !ok0 || !pre.HeadOK {
		return
	}
	idx1, ok1 := post.Idx()
	wt0, wt1 := st.Pre.WT(), st.Post.WT()
	H, headExists, herr := headSnapshot(pre)
	if herr != nil {
		return
	}
	known := CopyMap(idx0)
	if staged {
		for p, id := range H {
			if _, ok := known[p]; !ok {
				known[p] = id
			}
		}
	}
	sel := map[string]bool{}
	optional := map[string]bool{} // the argument is a file on one side and a directory on the other: both readings accepted
	var unknown, classes []string
	domainOK, dotOpen := true, false
	for _, a := range pa.Pos {
		cp, okc := CleanArg(a)
		if !okc || InGoit(cp) {
			domainOK = false
			continue
		}
		cls := ""
		if _, ok := known[cp]; ok {
			sel[cp] = true
			for _, p := range trackedBeneath(known, cp) {
				optional[p] = true
			}
			if IsFileOnDisk(st.Pre, cp) {
				cls = "file"
			} else {
				cls = "deleted-file"
			}
		} else if cp == "." {
			dotOpen = true
			cls = "dot"
		} else if tb := trackedBeneath(known, cp); len(tb) > 0 {
			for _, p := range tb {
				sel[p] = true
			}
			if IsDirOnDisk(st.Pre, cp) {
				cls = "directory"
			} else {
				cls = "deleted-directory"
			}
		} else {
			unknown = append(unknown, a)
			cls = "unknown"
		}
		classes = append(classes, cls)
		if cls != "unknown" && cls != "dot" {
			c.Class(fmt.Sprintf("C09|staged=%v|%s|%s", staged, cls, nameRelation(nil, known, cp)))
		}
	}
	if !domainOK {
		c.Count("C09.outside-domain")
		return
	}
	sort.Strings(classes)
	trig := strings.Join(uniq(classes), "+")
	if staged && !headExists {
		c.Oracle("C09.unknown-accepted")
		if st.Exit == 0 {
			w.Fail("C09.unknown-accepted", "staged-without-head-accepted", trig, "%s exited 0 although HEAD has no commit", st.String())
		}
		return
	}
	if len(unknown) > 0 {
		c.Oracle("C09.unknown-accepted")
		if st.Exit == 0 {
			w.Fail("C09.unknown-accepted", "unknown-accepted", trig, "%s names %v which is known to neither the staging area nor HEAD, and exited 0", st.String(), unknown)
		}
		// refusal must not have changed anything (argument validation happens first)
		if same, d := sameSandbox(st.Pre, st.Post); !same {
			w.Fail("C09.unknown-accepted", "state-changed", trig, "%s names unknown %v but changed %v", st.String(), unknown, firstN(d, 5))
		}
		return
	}
	if dotOpen {
		if same, _ := sameSandbox(st.Pre, st.Post); same && st.Exit != 0 {
			return // "." refused without change: accepted
		}
		for p := range known {
			sel[p] = true
		}
	}
	if !ok1 {
		w.Fail("C09.staged.collateral", "index-undecodable", trig, "after %s the index does not decode", st.String())
		return
	}
	if !staged {
		// type conflicts make the restore impossible as stated: outside the domain
		if HasConflict(idx0) {
			c.Count("C09.type-conflict")
			return
		}
		for p := range sel {
			if IsDirOnDisk(st.Pre, p) {
				c.Count("C09.type-conflict")
				return
			}
			for d := p; strings.Contains(d, "/"); {
				d = d[:strings.LastIndex(d, "/")]
				if IsFileOnDisk(st.Pre, d) {
					c.Count("C09.type-conflict")
					return
				}
			}
		}
		c.Oracle("C09.wt.selected")
		for p := range sel {
			o, okb := pre.Obj(idx0[p])
			if !okb {
				continue // C03's concern
			}
			got, on := wt1[p]
			if !on {
				sym := "selected-file-missing"
				w.Fail("C09.wt.selected", sym, trig, "after %s (exit %d) %q does not exist (was on disk before: %v)", st.String(), st.Exit, p, wt0[p] != nil)
			} else if !bytes.Equal(got, o.Body) {
				w.Fail("C09.wt.selected", "selected-file-differs", trig, "after %s (exit %d) %q is not byte-identical to its staged blob", st.String(), st.Exit, p)
			}
		}
		c.Oracle("C09.wt.collateral")
		for p, b := range wt0 {
			if sel[p] || sameLink(st, p) {
				continue
			}
			nb, still := wt1[p]
			if !still {
				w.Fail("C09.wt.collateral", "other-file-deleted", trig, "%s deleted %q which it did not name", st.String(), p)
			} else if !bytes.Equal(b, nb) {
				w.Fail("C09.wt.collateral", "other-file-modified", trig, "%s rewrote %q which is not beneath any named path", st.String(), p)
			}
		}
		for p := range wt1 {
			if _, was := wt0[p]; !was && !sel[p] && !sameLink(st, p) {
				w.Fail("C09.wt.collateral", "other-file-created", trig, "%s created %q which is not beneath any named path", st.String(), p)
			}
		}
		c.Oracle("C09.wt.goit-untouched")
		if d := goitDiff(st.Pre, st.Post); len(d) > 0 {
			w.Fail("C09.wt.goit-untouched", "goit-changed", trig, "%s changed %v", st.String(), firstN(d, 5))
		}
		return
	}
	// --staged
	c.Oracle("C09.staged.selected")
	for p := range sel {
		want, inHead := H[p]
		got, inIdx := idx1[p]
		switch {
		case inHead && (!inIdx || got != want):
			sym := "entry-not-restored"
			if !inIdx {
				sym = "entry-not-recreated"
			}
			w.Fail("C09.staged.selected", sym, trig, "after %s (exit %d) staged %q is %s, HEAD has %s", st.String(), st.Exit, p, short(got), short(want))
		case !inHead && inIdx:
			w.Fail("C09.staged.selected", "entry-not-removed", trig, "after %s (exit %d) %q is still staged although HEAD has no such path", st.String(), st.Exit, p)
		}
	}
	c.Oracle("C09.staged.collateral")
	for p := range optional {
		if sel[p] {
			continue
		}
		if got := idx1[p]; got != idx0[p] && got != H[p] {
			w.Fail("C09.staged.collateral", "other-entry-changed", trig, "%s left %q staged as %s, neither its old entry nor HEAD's", st.String(), p, short(got))
		}
	}
	for p, id := range idx0 {
		if optional[p] {
			continue
		}
		if !sel[p] && idx1[p] != id {
			w.Fail("C09.staged.collateral", "other-entry-changed", trig, "%s changed the staged entry %q which it did not name", st.String(), p)
		}
	}
	for p := range idx1 {
		if optional[p] {
			continue
		}
		if _, was := idx0[p]; !was && !sel[p] {
			w.Fail("C09.staged.collateral", "other-entry-appeared", trig, "%s staged %q which it did not name", st.String(), p)
		}
	}
	if d := wtDiff(st.Pre, st.Post); len(d) > 0 {
		w.Fail("C09.staged.collateral", "worktree-changed", trig, "%s --staged changed working files %v", st.String(), firstN(d, 5))
	}
	if d := goitDiff(st.Pre, st.Post, "index"); len(d) > 0 {
		w.Fail("C09.staged.collateral", "goit-changed", trig, "%s changed %v", st.String(), firstN(d, 5))
	}
}

// checkRestoreFromSubdir: a session held in a sub-directory. Goit resolves path arguments and the paths it stages
// against the current directory (DESIGN 10.5), so a file staged there as `lib/a.txt` lives at <cwd>/lib/a.txt, and
// that is where `restore lib` issued from the same directory must bring it back -- nowhere else.
func checkRestoreFromSubdir(w *core.World, st *core.Step, args []string, staged bool) {
	if staged {
		return
	}
	pre := st.Pre.Repo()
	idx0, ok := pre.Idx()
	if !ok {
		return
	}
	sel := map[string]bool{}
	for _, a := range args {
		cp, okc := CleanArg(a)
		if !okc || InGoit(cp) {
			return
		}
		n := 0
		for p := range idx0 {
			if p == cp || Under(p, cp) {
				sel[p] = true
				n++
			}
		}
		if n == 0 {
			return // an unknown argument: the root-level oracle covers refusals
		}
	}
	c := w.C
	c.Oracle("C09.subdir-session")
	c.Class("C09.subdir|n" + fmt.Sprint(min(len(sel), 4)))
	trig := "cwd-in-subdirectory"
	if st.Exit != 0 {
		w.Fail("C09.subdir-session", "valid-restore-refused", trig, "%s names tracked paths only and exits %d: %s", st.String(), st.Exit, clipS(firstLine(st.Stdout+st.Stderr), 160))
		return
	}
	wt1 := st.Post.WT()
	want := map[string]bool{}
	for p := range sel {
		o, okb := pre.Obj(idx0[p])
		if !okb {
			continue
		}
		full := st.Cwd + "/" + p
		want["w/"+full] = true
		if b, there := wt1[full]; !there || !bytes.Equal(b, o.Body) {
			w.Fail("C09.subdir-session", "selected-file-differs", trig, "after %s the file %q does not hold the staged bytes of %q (present: %v)", st.String(), full, p, there)
		}
	}
	for _, d := range wtDiff(st.Pre, st.Post) {
		if !want[d[1:]] {
			w.Fail("C09.subdir-session", "other-file-changed", trig, "%s changed %s, which it did not name", st.String(), d)
		}
	}
}

func runC09(c *core.Ctx) {
	n := c.Pick(500, 4000)
	c.RunHistories(n, Registry["C09"].Mons, func(w *core.World) {
		wts := map[string]int{
			"edit-twin-file": 4, "edit-mod-old": 3, "edit-new": 8, "edit-copy": 2, "edit-copydir": 1, "edit-mod": 11, "edit-mod-samesize": 4, "edit-rm": 10, "edit-rmdir": 6,
			"add": 12, "rm": 4, "commit": 5, "commit-all": 1,
			"restore": 22, "restore-staged": 22, "reset": 2,
		}
		k := NewWalker(w, gen.NameOpts{Space: true, NonASCII: w.Hist%3 == 0, Meta: w.Hist%2 == 0, MaxDepth: 4, N: 7 + w.Hist%4}, wts)
		k.Hostile = 8
		k.MaxContent = 3000
		if w.Hist%4 == 0 {
			// file <-> directory replacements between HEAD, the staging area and the working tree
			k.Swap = true
			k.Weights["edit-swap"] = 6
			k.keys = append(k.keys, "edit-swap")
			sort.Strings(k.keys)
			k.total += 6
		}
		if w.Hist%3 == 1 {
			// tracked paths that have become links (symbolic or hard) to other files: restore must bring the FILE back
			k.Enable("edit-link-over", 6)
		}
		k.Init()
		for i, p := range k.Pool {
			if i >= 6 {
				break
			}
			w.Write(p, k.content())
		}
		if w.Hist%6 != 0 {
			k.Do("commit-all")
		} else {
			k.AddAllTracked()
		}
		var big []string
		if w.Hist%10 == 3 {
			// scale: one restore that resolves to 17..150 tracked paths, most of them modified or missing
			big = k.Populate(17 + k.R.IntN(134))
			k.goit("add", ".")
			if k.chance(60) {
				k.Do("commit")
			}
		}
		steps := c.Pick(36, 42)
		for i := 0; i < steps; i++ {
			if big != nil && i%7 == 2 {
				k.PerturbMany(big)
				if len(big) > 60 {
					// many paths in one command, few file descriptors (40): restoring a file needs one at a time
					w.Env = map[string]string{"VERIF_NOFILE": "40"}
					defer func() { w.Env = nil }()
				}
				switch k.R.IntN(4) {
				case 0:
					k.goit("restore", ".")
				case 1:
					k.goit(append([]string{"restore"}, k.tracked()...)...)
				case 2:
					if dirs := k.trackedDirs(); len(dirs) > 0 {
						k.goit("restore", dirs[0], dirs[len(dirs)-1])
					}
				default:
					k.goit("add", ".")
					k.goit("restore", "--staged", ".")
				}
				continue
			}
			k.Step()
		}
		if w.Hist%8 == 5 {
			// a session held in a sub-directory: stage, commit, damage, restore -- all from there
			sub := pickS(k.R, []string{"pkg", "work dir", "a/b"})
			files := []string{"zsub lib/a.txt", "zsub lib/deep/b.txt", "zsub lib/deep/c d.txt", "zsub top.txt"}
			for _, f := range files {
				w.Write(sub+"/"+f, k.content())
			}
			w.GoitIn(sub, "add", "zsub lib", "zsub top.txt")
			w.GoitIn(sub, "commit", "-m", "from a sub-directory")
			switch k.R.IntN(3) {
			case 0:
				w.Edit("rmdir", sub+"/zsub lib", nil)
			case 1:
				w.Edit("rm", sub+"/zsub lib/deep/b.txt", nil)
				w.Write(sub+"/zsub lib/a.txt", []byte("changed\n"))
			default:
				w.Edit("rmdir", sub+"/zsub lib/deep", nil)
				w.Write(sub+"/zsub top.txt", []byte("changed\n"))
			}
			w.Write(sub+"/untracked.txt", []byte("stays\n"))
			switch k.R.IntN(3) {
			case 0:
				w.GoitIn(sub, "restore", "zsub lib")
			case 1:
				w.GoitIn(sub, "restore", "zsub lib/deep/b.txt", "zsub lib/a.txt")
			default:
				w.GoitIn(sub, "restore", "zsub lib/deep", "zsub top.txt")
			}
		}
	})
}

func init() {
	register(&Prop{ID: "C09", Level: "exploration",
		Rule:   "seeded histories producing (HEAD snapshot, staging area, working tree) triples; restore / restore --staged with arguments that are files, existing directories, deleted files, deleted directories, unknown paths, over names that are substrings/prefixes of other tracked names or contain regexp metacharacters, with untracked files inside named directories; oracle: selected paths byte-identical to the staged blob (resp. staged entry == HEAD entry), everything else byte-identical, unknown refused; distinct = (flag, argument kind, name-relation class)",
		Mons:   func() []core.Monitor { return []core.Monitor{C09Mon{}} },
		Run:    runC09,
		Floors: []core.Floor{{Key: "C09.wt.selected", Min: 300}, {Key: "C09.staged.selected", Min: 300}},
	})
}
