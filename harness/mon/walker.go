package mon

import (
	"fmt"
	"math/rand/v2"
	"path"
	"sort"
	"strings"
	"sync"

	"verif/harness/core"
	"verif/harness/gen"
	"verif/harness/gitfmt"
)

// Walker emits state-aware random histories: it looks at the decoded state of the sandbox
// to produce meaningful commands, mixed with hostile ones.
type Walker struct {
	W           *core.World
	R           *rand.Rand
	Opts        gen.NameOpts
	Pool        []string // candidate file paths for this history
	MsgN        int
	Weights     map[string]int
	Hostile     int  // percent of path/branch arguments that are hostile
	Swap        bool // allow file<->directory swaps
	Escape      bool // allow paths escaping the root / inside .goit in arguments
	MsgClass    bool // use the message classes of C11/C12 (else plain single-line messages)
	BranchNames []string
	MaxContent  int
	total       int
	keys        []string
	invalid     string // reason why the next command is constructed as invalid ("" = not)
	settle      bool   // small-pool history that has not yet moved to an odd branch
}

func NewWalker(w *core.World, opts gen.NameOpts, weights map[string]int) *Walker {
	k := &Walker{W: w, R: w.Rng, Opts: opts, Weights: weights, Hostile: 10, MaxContent: 300}
	k.Pool = gen.NameSet(k.R, opts)
	k.BranchNames = []string{"main", "dev", "a", "ab", "b", "a.b", "a-b", "feat_1", "x2", "topic", "Main", "DEV", "zeta", "alpha", "main.lock", "dev.lock", "a.lock", "m_", "HEAD", "topic.tmp", "main.tmp", "a.tmp", "a.new", "a~", "a.bak", "a.orig"}
	if w.Hist%6 == 3 {
		// a small pool of legal but odd names (separators Goit itself uses in HEAD and in the journal, blanks at the
		// ends next to the trimmed twin, names beyond 112 bytes that are prefixes of each other): with few names the
		// history is likely to switch to one of them and keep working there
		q := strings.Repeat("q", 111)
		k.settle = true
		k.BranchNames = []string{"main", "a", "a.tmp", "a.lock", "main.tmp", "a: b", "a: b: c", "ref: refs/heads/a", "x y", "topic", "topic ", " topic", "q:r", "100%s", q, q + "r", q + "rs"}
	}
	for a, wgt := range weights {
		if wgt > 0 {
			k.keys = append(k.keys, a)
			k.total += wgt
		}
	}
	sort.Strings(k.keys)
	return k
}

// Init runs `goit init` and configures an identity.
func (k *Walker) Init() {
	k.goit("init")
	k.goit("config", "user.name", "Test User")
	k.goit("config", "user.email", "test@example.com")
}

// BigNames returns n conflict-free file paths spread over a fixed set of directories (flat, nested, siblings
// whose names sort around '/'), with names of varying length: the population of the "scale" histories
// (staging-area files beyond 4 KiB, more paths per command than any worker pool or batch size).
func BigNames(r *rand.Rand, n int) []string {
	dirs := []string{"", "", "big/", "big/sub/", "big/sub/deep/", "big.d/", "big-x/", "src/", "src/pkg/", "z/"}
	exts := []string{".txt", ".go", ".c", "", ".md", ".data"}
	out := make([]string, 0, n)
	for i := 0; i < n; i++ {
		d := dirs[r.IntN(len(dirs))]
		if i%11 == 0 {
			d = fmt.Sprintf("m%02d/", i%7)
		}
		stem := "f"
		if i%5 == 0 {
			stem = strings.Repeat("long", 1+r.IntN(8))
		}
		out = append(out, fmt.Sprintf("%s%s%03d%s", d, stem, i, exts[r.IntN(len(exts))]))
	}
	sort.Strings(out)
	return out
}

// Populate writes n small files in one step and returns their paths.
func (k *Walker) Populate(n int) []string {
	names := BigNames(k.R, n)
	k.W.EditMany(names, int64(k.R.IntN(1000)))
	if idTwins(); twinBlobs && twinTs {
		// among them, contents whose blob ids, and directories whose tree ids, share their first 32 bits
		k.W.Write("idtwin/a.txt", twinBlobA)
		k.W.Write("idtwin/b.txt", twinBlobB)
		k.W.Write("idtwin/ta/f", twinTreeA)
		k.W.Write("idtwin/tb/f", twinTreeB)
		names = append(names, "idtwin/a.txt", "idtwin/b.txt", "idtwin/ta/f", "idtwin/tb/f")
		for i, n := range hashTwinNames {
			k.W.Write(n, []byte(fmt.Sprintf("checksum twin %d\n", i)))
			names = append(names, n)
		}
	}
	k.W.C.Count("scale.populated-histories")
	return names
}

// PerturbMany rewrites about half of the given files (always including the first and the last three tracked paths in
// index order, where a batch or worker split would lose its remainder) and deletes a few, in two steps.
func (k *Walker) PerturbMany(names []string) {
	tr := k.tracked()
	pickSet := map[string]bool{}
	for i, p := range tr {
		if i < 3 || i >= len(tr)-3 {
			pickSet[p] = true
		}
	}
	for _, p := range names {
		if k.R.IntN(2) == 0 {
			pickSet[p] = true
		}
	}
	sn := k.W.State()
	var mod []string
	for _, p := range SortedSet(pickSet) {
		if IsFileOnDisk(sn, p) {
			mod = append(mod, p)
		}
	}
	if len(mod) == 0 {
		return
	}
	k.W.EditMany(mod, int64(1000+k.R.IntN(1000)))
	for i := 0; i < 3; i++ {
		k.W.Edit("rm", mod[k.R.IntN(len(mod))], nil)
	}
}

// TwinProbe works on two branches whose names differ by a suffix or prefix that a lock / temporary / backup file
// of the other one could carry (X and X.tmp, X.lock, X~, tmp-X ...): the current branch is the decorated name while
// the plain one is created, and the other way round. Every name is legal; no write to one may touch the other.
func (k *Walker) TwinProbe() {
	base := fmt.Sprintf("tw%d", k.R.IntN(50))
	deco := pickS(k.R, []string{".tmp", ".lock", ".new", "~", ".bak", ".orig", ".tmp~", "-tmp", ".swp"})
	twin := base + deco
	if k.chance(20) {
		twin = pickS(k.R, []string{"tmp-", "tmp_", ".", "_", "new-"}) + base
	}
	if k.chance(50) {
		k.goit("switch", "-c", twin)
		k.goit("branch", base)
		k.goit("status")
		k.goit("branch", "--list")
	} else {
		k.goit("switch", "-c", base)
		k.goit("branch", twin)
		k.Do("commit-all")
		k.goit("switch", twin)
		k.goit("status")
	}
	k.W.C.Count("scale.twin-probes")
}

// LongHistory makes n small commits in a row (one changed file each, now and then on another branch), so that
// counters, journals and parent chains pass 10, 100, 255, 256 entries.
func (k *Walker) LongHistory(n int) {
	for i := 0; i < n; i++ {
		k.W.Write(fmt.Sprintf("long/f%d.txt", i%7), []byte(fmt.Sprintf("generation %d\n", i)))
		k.goit("add", "long")
		k.goit("commit", "-m", fmt.Sprintf("long history %d", i))
		if i%50 == 49 {
			k.goit("switch", "-c", fmt.Sprintf("long-%d", i))
		}
	}
	k.W.C.Count("scale.long-histories")
}

var zipBoundaryMemo sync.Map // target compressed size -> body length for seed "zip-boundary"

// BoundaryFiles writes files whose blob OBJECT has a size that is an exact multiple of a block: the encoded object
// ("blob <n>\0" + bytes) is 32 KiB, 64 KiB, 96 KiB or 1 MiB long, or the compressed file is exactly 64 KiB / 1 MiB.
// Chunked compressors and writers lose or refuse their last block exactly there.
func (k *Walker) BoundaryFiles(dir string) []string {
	var out []string
	for _, total := range []int{32768, 65536, 98304, 1 << 20} {
		if n, ok := gitfmt.BodyLenForEncoded("blob", total); ok {
			p := fmt.Sprintf("%senc-%d.bin", dir, total)
			k.W.EditRand(p, fmt.Sprint("enc-boundary-", total), int64(n))
			out = append(out, p)
		}
	}
	for _, T := range []int{65536, 1 << 20} {
		var n int64
		if v, ok := zipBoundaryMemo.Load(T); ok {
			n = v.(int64)
		} else {
			n = int64(T - 64)
			hit := false
			for it := 0; it < 40 && n > 0; it++ {
				L := len(gitfmt.EncodeObjectFile("blob", core.RandBytes("zip-boundary", n)))
				if L == T {
					hit = true
					break
				}
				n += int64(T - L)
			}
			if !hit {
				n = 0
			}
			zipBoundaryMemo.Store(T, n)
		}
		if n > 0 {
			p := fmt.Sprintf("%szip-%d.bin", dir, T)
			k.W.EditRand(p, "zip-boundary", n)
			out = append(out, p)
		}
	}
	k.W.C.Count("scale.boundary-file-histories")
	return out
}

// DeepPaths writes files beneath very deep and very long paths (all legal: every component is below NAME_MAX, the
// whole below PATH_MAX): 140 nested directories, and paths of about 1 200 and 2 600 bytes.
func (k *Walker) DeepPaths() []string {
	long := func(n int) string {
		var parts []string
		for i := 0; i < n; i++ {
			parts = append(parts, fmt.Sprintf("%c%s", 'a'+rune(i%26), strings.Repeat("n", 229)))
		}
		return strings.Join(parts, "/")
	}
	ps := []string{"deep/" + strings.Repeat("d/", 140) + "leaf.txt", "deep/" + strings.Repeat("d/", 128) + "at-128.txt", "long/" + long(5) + "/f.txt", "long/" + long(11) + "/g.txt"}
	for _, p := range ps {
		k.W.Write(p, []byte("deep "+fmt.Sprint(len(p))+"\n"))
	}
	k.W.C.Count("scale.deep-path-histories")
	return ps
}

// goit runs a command, attaching the pending "constructed as invalid" tag if any.
func (k *Walker) goit(argv ...string) *core.Step {
	if k.invalid != "" {
		k.W.Tag = map[string]string{"invalid": k.invalid}
		k.invalid = ""
	}
	return k.W.Goit(argv...)
}

// ---- state views

func (k *Walker) tracked() []string {
	m, _ := idx(k.W.State())
	return gitfmt.SortedKeys(m)
}

func (k *Walker) wtFiles() []string {
	wt := k.W.State().WT()
	out := make([]string, 0, len(wt))
	for p := range wt {
		out = append(out, p)
	}
	sort.Strings(out)
	return out
}

func (k *Walker) wtDirs() []string {
	d := k.W.State().WTDirs()
	out := make([]string, 0, len(d))
	for p := range d {
		if p != "" && p != "." {
			out = append(out, p)
		}
	}
	sort.Strings(out)
	return out
}

func (k *Walker) trackedDirs() []string {
	set := map[string]bool{}
	for _, p := range k.tracked() {
		for d := path.Dir(p); d != "." && d != "/"; d = path.Dir(d) {
			set[d] = true
		}
	}
	return SortedSet(set)
}

func (k *Walker) branches() []string {
	return gitfmt.SortedKeys(k.W.State().Repo().Branches)
}

func (k *Walker) reflogLen() int { return len(k.W.State().Repo().LogHEAD) }

func (k *Walker) pick(xs []string) (string, bool) {
	if len(xs) == 0 {
		return "", false
	}
	return xs[k.R.IntN(len(xs))], true
}

func (k *Walker) chance(pct int) bool { return k.R.IntN(100) < pct }

// fresh path not on disk and not conflicting with disk entries
func (k *Walker) freshPath() string {
	sn := k.W.State()
	for tries := 0; tries < 30; tries++ {
		var p string
		if tries < 10 {
			p, _ = k.pick(k.Pool)
		} else {
			parts := make([]string, 1+k.R.IntN(max(1, k.Opts.MaxDepth)))
			for i := range parts {
				parts[i] = gen.Comp(k.R, k.Opts)
			}
			p = strings.Join(parts, "/")
		}
		if !gen.ValidPath(p) || ExistsOnDisk(sn, p) {
			continue
		}
		// no ancestor may be a file; p may not be an existing dir
		bad := false
		for d := path.Dir(p); d != "." && d != "/"; d = path.Dir(d) {
			if IsFileOnDisk(sn, d) {
				bad = true
			}
		}
		if !bad {
			return p
		}
	}
	return fmt.Sprintf("gen%d.txt", k.R.Uint32())
}

func (k *Walker) content() []byte {
	if k.chance(70) {
		return gen.SmallText(k.R)
	}
	b, _ := gen.Content(k.R, k.MaxContent)
	return b
}

func (k *Walker) message() string {
	k.MsgN++
	if k.MsgClass {
		m, c := gen.Message(k.R, k.MsgN)
		if k.chance(7) {
			// lines that look like commit headers, naming objects that exist
			r := k.W.State().Repo()
			var tree, commit string
			for _, id := range gitfmt.SortedKeys(r.Objects) {
				if o, ok := r.Obj(id); ok {
					if o.Kind == "tree" && (tree == "" || k.chance(30)) {
						tree = id
					}
					if o.Kind == "commit" && (commit == "" || k.chance(30)) {
						commit = id
					}
				}
			}
			if tree != "" && commit != "" {
				m = fmt.Sprintf("headers in the message %d\n\ntree %s\nparent %s\nauthor Mallory M <m@example.net> 1 +0000\ncommitter Mallory M <m@example.net> 1 +0000\n\ntrailer", k.MsgN, tree, commit)
				c = "header-lookalike"
			}
		}
		k.W.C.Class("msg:" + c)
		return m
	}
	return fmt.Sprintf("commit %d", k.MsgN)
}

// unknownPath: a path that is neither on disk nor tracked, often a near miss of a tracked name.
func (k *Walker) unknownPath() string {
	sn := k.W.State()
	tr := k.tracked()
	for tries := 0; tries < 20; tries++ {
		var p string
		if t, ok := k.pick(tr); ok && k.chance(70) {
			first := strings.SplitN(t, "/", 2)[0]
			switch k.R.IntN(6) {
			case 0:
				if len(first) > 1 {
					p = first[:len(first)-1] // proper prefix: "d" for "d-old"
				}
			case 1:
				p = first + "x"
			case 2:
				if len(first) > 1 {
					p = first[1:] // suffix: "d" for "ad"
				}
			case 3:
				p = t + "/nope"
			case 4:
				for _, sep := range []string{"-", ".", "(", "+", " "} {
					if i := strings.Index(first, sep); i > 0 {
						p = first[:i]
					}
				}
			default:
				p = path.Base(t)
			}
		} else {
			p = "nope" + fmt.Sprint(k.R.IntN(100))
		}
		if p == "" || strings.HasPrefix(p, "-") || p == "." {
			continue
		}
		if ExistsOnDisk(sn, p) {
			continue
		}
		known := false
		for _, t := range tr {
			if t == p || strings.HasPrefix(t, p+"/") {
				known = true
			}
		}
		if !known {
			return p
		}
	}
	return "no-such-path"
}

func pickS(r *rand.Rand, xs []string) string { return xs[r.IntN(len(xs))] }

// PathArgs chooses arguments for add/rm/restore according to the state.
func (k *Walker) PathArgs(cmd string) []string {
	n := 1
	if k.chance(30) {
		n = 2 + k.R.IntN(2)
	}
	var args []string
	for i := 0; i < n; i++ {
		a, class := k.onePathArg(cmd)
		if a == "" && class != "hostile" {
			continue
		}
		k.W.C.Class("arg:" + cmd + ":" + class)
		// alternative spellings
		if class != "hostile" && cmd == "add" && k.chance(6) {
			// absolute path of the same thing
			if a == "." {
				a = k.W.SB.W()
			} else {
				a = k.W.SB.W() + "/" + a
			}
			k.W.C.Class("arg:" + cmd + ":absolute-spelling")
		} else if class != "hostile" && a != "." && cmd == "add" && IsFileOnDisk(k.W.State(), a) && k.chance(8) {
			// spellings that lead THROUGH a file or through a directory that does not exist: they name nothing (stat
			// fails), although the name they clean to is there -- refusing is fine, staging the file is fine, taking the
			// file for a deleted one is not
			a = pickS(k.R, []string{a + "/", a + "/.", "no-such-dir/../" + a, a + "/../" + path.Base(a)})
			k.W.C.Class("arg:" + cmd + ":through-file-spelling")
		} else if class != "hostile" && cmd == "add" && ExistsOnDisk(k.W.State(), a) && k.chance(7) {
			// through the parent and back: "../<name of the working directory>/x" names x
			if a == "." {
				a = "../w"
			} else {
				a = "../w/" + a
			}
			k.W.C.Class("arg:" + cmd + ":through-parent-spelling")
		} else if class != "hostile" && a != "." && k.chance(10) {
			switch k.R.IntN(3) {
			case 0:
				a = "./" + a
			case 1:
				a = a + "/"
				if IsFileOnDisk(k.W.State(), strings.TrimSuffix(a, "/")) {
					a = strings.TrimSuffix(a, "/")
				}
			default:
				// "<existing dir>/../x" resolves at the OS level; a non-existing first component would not
				if d, ok := k.pick(k.wtDirs()); ok && !strings.Contains(d, "/") {
					a = d + "/../" + a
				}
			}
		}
		args = append(args, a)
	}
	if len(args) > 0 && k.chance(8) {
		args = append(args, args[0]) // repeated argument
		k.W.C.Class("arg:" + cmd + ":repeated")
	}
	if len(args) == 0 {
		k.invalid = "unknown-path"
		args = []string{k.unknownPath()}
	}
	return args
}

func (k *Walker) onePathArg(cmd string) (string, string) {
	sn := k.W.State()
	if k.chance(k.Hostile) {
		if k.Escape && k.chance(50) {
			return pickS(k.R, []string{".goit", ".goit/HEAD", ".goit/index", "../x", "..", k.W.SB.Root + "/o", "/nonexistent-root-dir/file", "../o", "../o", "", "../home/.goitconfig", "../home", "../home/../home/.goitconfig", "../w/../home/.goitconfig", ".goit/objects", "./.goit/config", "a/../../b", ".", ".", "./"}), "hostile"
		}
		k.invalid = "unknown-path"
		return k.unknownPath(), "unknown"
	}
	tr := k.tracked()
	var trOn, trOff, untr []string
	trset := SetOf(tr)
	for _, p := range tr {
		if IsFileOnDisk(sn, p) {
			trOn = append(trOn, p)
		} else {
			trOff = append(trOff, p)
		}
	}
	for _, p := range k.wtFiles() {
		if !trset[p] {
			untr = append(untr, p)
		}
	}
	tdirs := k.trackedDirs()
	var tdOn, tdOff []string
	for _, d := range tdirs {
		if IsDirOnDisk(sn, d) {
			tdOn = append(tdOn, d)
		} else {
			tdOff = append(tdOff, d)
		}
	}
	type opt struct {
		xs    []string
		class string
		w     int
	}
	var opts []opt
	switch cmd {
	case "add":
		opts = []opt{{untr, "untracked-file", 4}, {trOn, "tracked-file", 3}, {trOff, "deleted-tracked-file", 3}, {k.wtDirs(), "dir-on-disk", 3}, {tdOff, "deleted-tracked-dir", 1}, {[]string{"."}, "dot", 2}}
	case "rm":
		opts = []opt{{trOn, "tracked-file", 5}, {trOff, "deleted-tracked-file", 2}, {tdOn, "tracked-dir", 3}, {tdOff, "deleted-tracked-dir", 1}, {untr, "untracked-file", 1}}
	default: // restore
		opts = []opt{{trOn, "tracked-file", 4}, {trOff, "deleted-tracked-file", 3}, {tdOn, "tracked-dir", 3}, {tdOff, "deleted-tracked-dir", 2}, {untr, "untracked-file", 1}}
	}
	tot := 0
	for _, o := range opts {
		if len(o.xs) > 0 {
			tot += o.w
		}
	}
	if tot == 0 {
		k.invalid = "unknown-path"
		return k.unknownPath(), "unknown"
	}
	x := k.R.IntN(tot)
	for _, o := range opts {
		if len(o.xs) == 0 {
			continue
		}
		if x < o.w {
			p, _ := k.pick(o.xs)
			if o.class == "untracked-file" && (cmd == "rm" || cmd == "restore") {
				k.invalid = "untracked-path"
			}
			return p, o.class
		}
		x -= o.w
	}
	return k.unknownPath(), "unknown"
}

// ---- actions

func (k *Walker) Step() {
	if k.total == 0 {
		return
	}
	if k.settle && k.Weights["switch-c"] > 0 {
		// the small-pool histories move to an oddly named branch as soon as there is a commit, and work there
		if k.W.State().Repo().HeadCommit() != "" {
			k.settle = false
			odd := []string{"topic ", " topic", "a: b", "a.tmp", "x y", "a: b: c", "q:r", "100%s", "main.tmp"}
			name := odd[k.R.IntN(len(odd))]
			k.goit("switch", "-c", name)
			// deleting the branch one is on must be refused, under whatever name
			k.invalid = "delete-current-branch"
			k.goit("branch", "-d", name)
			return
		}
	}
	x := k.R.IntN(k.total)
	for _, a := range k.keys {
		if x < k.Weights[a] {
			k.Do(a)
			return
		}
		x -= k.Weights[a]
	}
}

func (k *Walker) Do(action string) {
	w := k.W
	sn := w.State()
	switch action {
	case "edit-new":
		w.Write(k.freshPath(), k.content())
	case "edit-mod":
		if p, ok := k.pick(k.wtFiles()); ok && p != ".goitignore" {
			w.Write(p, k.content())
		} else {
			w.Write(k.freshPath(), k.content())
		}
	case "edit-copy":
		// a new file with the bytes of an existing one (equal blob ids under different paths)
		if p, ok := k.pick(k.wtFiles()); ok && p != ".goitignore" {
			w.Write(k.freshPath(), sn.WT()[p])
		}
	case "edit-copydir":
		// a twin directory: same names and contents beneath another directory name (equal tree ids)
		if d, ok := k.pick(k.wtDirs()); ok && !strings.Contains(d, "/") {
			twin := d + "-twin"
			if !ExistsOnDisk(sn, twin) {
				for p, b := range sn.WT() {
					if strings.HasPrefix(p, d+"/") {
						w.Write(twin+p[len(d):], b)
					}
				}
			}
		}
	case "edit-mod-samesize":
		// change the content but not the size (defeats size/mtime shortcuts)
		var cands []string
		for _, p := range k.wtFiles() {
			if len(sn.WT()[p]) > 0 && p != ".goitignore" {
				cands = append(cands, p)
			}
		}
		if p, ok := k.pick(cands); ok {
			b := append([]byte{}, sn.WT()[p]...)
			i := k.R.IntN(len(b))
			b[i] ^= 0x01
			if b[i] == '\n' || b[i] == 0 {
				b[i] = 'x'
			}
			w.Write(p, b)
		}
	case "edit-mod-old":
		// other bytes, but a modification time in the past (an older file moved over it, cp -p, tar x, touch -d):
		// defeats "not written since it was staged" shortcuts keyed on times
		var cands []string
		for _, p := range k.wtFiles() {
			if p != ".goitignore" {
				cands = append(cands, p)
			}
		}
		if p, ok := k.pick(cands); ok {
			w.Write(p, append([]byte("older draft\n"), k.content()...))
			st := w.Edit("touch", p, nil)
			_ = st
		}
	case "edit-twin-file":
		// a sibling whose name is that of a tracked file plus the decoration a lock / temporary / backup copy would carry
		if p, ok := k.pick(k.tracked()); ok {
			q := p + pickS(k.R, []string{".tmp", ".tmp", ".lock", "~", ".orig", ".bak", ".new", ".swp", ".tmp~", ".part"})
			if k.chance(15) {
				q = path.Join(path.Dir(p), pickS(k.R, []string{"tmp-", ".", ".tmp-", "#"})+path.Base(p))
			}
			if gen.ValidPath(q) && !ExistsOnDisk(sn, q) {
				w.Write(q, append([]byte("twin of "+p+"\n"), k.content()...))
			}
		}
	case "edit-same":
		if p, ok := k.pick(k.wtFiles()); ok {
			w.Tag = map[string]string{"meta": "same-bytes"}
			w.Write(p, sn.WT()[p])
		}
	case "edit-touch":
		if p, ok := k.pick(k.wtFiles()); ok {
			if k.chance(40) {
				// mode bits only: executable, private, read-only, set-user-id, set-group-id, sticky
				w.Tag = map[string]string{"meta": "mode-only"}
				w.Chmod(p, []int64{0o755, 0o600, 0o444, 0o4755, 0o2664, 0o1644, 0o6775, 0o644}[k.R.IntN(8)])
			} else {
				w.Tag = map[string]string{"meta": "mtime-only"}
				w.Edit("touch", p, nil)
			}
		}
	case "edit-rm":
		if p, ok := k.pick(k.wtFiles()); ok && p != ".goitignore" {
			w.Edit("rm", p, nil)
		}
	case "edit-rmdir":
		if d, ok := k.pick(k.wtDirs()); ok {
			w.Edit("rmdir", d, nil)
		}
	case "edit-link-over":
		// a tracked path becomes ANOTHER NAME of something else: a symbolic link to another working file (tracked or
		// not), or a second hard link to one. Writing the path "in place" later would change that other file.
		var cands []string
		idx0, _ := idx(w.State())
		for _, p := range k.wtFiles() {
			if _, tracked := idx0[p]; tracked && p != ".goitignore" && w.State().Odd["w/"+p] == "" {
				cands = append(cands, p)
			}
		}
		p, ok := k.pick(cands)
		if !ok {
			return
		}
		var t string
		if q, ok := k.pick(k.wtFiles()); ok && q != p && q != ".goitignore" && w.State().Odd["w/"+q] == "" && k.chance(60) {
			t = q
		} else {
			t = fmt.Sprintf("precious %d.txt", len(w.Steps))
			w.Write(t, []byte("precious, never tracked: "+t+"\n"))
		}
		w.Edit("rm", p, nil)
		if k.chance(65) {
			w.Symlink(p, strings.Repeat("../", strings.Count(p, "/"))+t)
		} else {
			w.Hardlink(p, t)
		}
	case "edit-swap":
		if !k.Swap {
			return
		}
		if k.chance(50) {
			if p, ok := k.pick(k.wtFiles()); ok && p != ".goitignore" && !k.isLinkTarget(p) {
				w.Edit("rm", p, nil)
				w.Write(p+"/inner", k.content())
			}
		} else if d, ok := k.pick(k.wtDirs()); ok {
			w.Edit("rmdir", d, nil)
			w.Write(d, k.content())
		}
	case "add":
		k.goit(append([]string{"add"}, k.PathArgs("add")...)...)
	case "add-all":
		k.goit("add", ".")
	case "rm":
		k.goit(append([]string{"rm"}, k.PathArgs("rm")...)...)
	case "commit":
		k.goit("commit", "-m", k.message())
	case "commit-all":
		if len(k.wtFiles()) == 0 {
			w.Write(k.freshPath(), k.content())
		}
		k.AddAllTracked()
		k.goit("commit", "-m", k.message())
	case "restore":
		k.goit(append([]string{"restore"}, k.PathArgs("restore")...)...)
	case "restore-staged":
		k.goit(append([]string{"restore", "--staged"}, k.PathArgs("restore-staged")...)...)
	case "reset":
		k.doReset()
	case "branch-create":
		k.goit("branch", k.branchName(false))
	case "branch-delete":
		k.goit("branch", "-d", k.branchName(true))
	case "branch-rename":
		k.goit("branch", "-r", k.branchName(false))
	case "branch-list":
		k.goit("branch", "--list")
	case "switch":
		k.goit("switch", k.branchName(true))
	case "switch-c":
		k.goit("switch", "-c", k.branchName(false))
	case "update-ref":
		k.doUpdateRef()
	case "status":
		k.goit("status")
	case "log":
		if k.chance(50) {
			k.goit("log")
		} else {
			n := fmt.Sprint(k.R.IntN(8))
			if k.chance(k.Hostile) {
				n = pickS(k.R, []string{"-1", "2147483647", "2147483648", "9223372036854775807", "9223372036854775808", "-9223372036854775808", "1e3", "0x10", "", "٣"})
			}
			k.goit("log", "-n", n)
		}
	case "reflog":
		k.goit("reflog")
	case "ls-files":
		if k.chance(50) {
			k.goit("ls-files")
		} else {
			k.goit("ls-files", "-s")
		}
	case "rev-parse":
		// one to five references in any order: HEAD in several spellings, branches, the same one twice
		var refs []string
		for i, n := 0, 1+k.R.IntN(5); i < n; i++ {
			if b, ok := k.pick(k.branches()); ok && k.chance(60) {
				refs = append(refs, b)
			} else {
				refs = append(refs, pickS(k.R, []string{"HEAD", "HEAD", "head", "Head"}))
			}
		}
		k.goit(append([]string{"rev-parse"}, refs...)...)
	case "cat-file":
		ids := gitfmt.SortedKeys(sn.Repo().Objects)
		if id, ok := k.pick(ids); ok {
			k.goit("cat-file", pickS(k.R, []string{"-p", "-t"}), id)
		}
	case "hash-object":
		if p, ok := k.pick(k.wtFiles()); ok {
			k.goit("hash-object", p)
		}
	case "write-tree":
		k.goit("write-tree")
	case "config":
		sec := pickS(k.R, []string{"user", "core", "x"})
		key := pickS(k.R, []string{"name", "email", "k"})
		val := pickS(k.R, []string{"Test User", "t@example.com", "v w", "other@example.org"})
		if sec == "user" && key == "email" {
			val = pickS(k.R, []string{"t@example.com", "other@example.org"})
		}
		if k.chance(30) {
			k.goit("config", "--global", sec+"."+key, val)
		} else {
			k.goit("config", sec+"."+key, val)
		}
	default:
		panic("unknown action " + action)
	}
}

// AddAllTracked stages every working-tree file by explicit name (does not depend on `add .`).
func (k *Walker) AddAllTracked() {
	files := k.wtFiles()
	var args []string
	for _, f := range files {
		if f == ".goitignore" {
			continue
		}
		args = append(args, f)
	}
	// also deleted tracked files
	sn := k.W.State()
	for _, t := range k.tracked() {
		if !IsFileOnDisk(sn, t) && !IsDirOnDisk(sn, t) {
			args = append(args, t)
		}
	}
	for len(args) > 0 {
		n := min(len(args), 20)
		k.goit(append([]string{"add"}, args[:n]...)...)
		args = args[n:]
	}
}

func (k *Walker) branchName(preferExisting bool) string {
	brs := k.branches()
	if k.chance(k.Hostile) {
		if k.Escape {
			k.invalid = "hostile-branch-name"
			return pickS(k.R, []string{"a/b", "..", "../x", "../../HEAD", "../../index", "x/../y", ".", "../../config", "a\\b", "../heads/zz", "refs/heads/x"})
		}
		name := "nosuch" + fmt.Sprint(k.R.IntN(10))
		if preferExisting {
			for _, b := range brs {
				if b == name {
					name += "x" + fmt.Sprint(len(brs))
				}
			}
			k.invalid = "unknown-branch"
		}
		return name
	}
	if preferExisting {
		if k.chance(85) {
			if b, ok := k.pick(brs); ok {
				return b
			}
		}
		return pickS(k.R, k.BranchNames)
	}
	if k.chance(15) {
		if b, ok := k.pick(brs); ok {
			return b // duplicate on purpose
		}
	}
	return pickS(k.R, k.BranchNames)
}

func (k *Walker) doReset() {
	n := k.reflogLen()
	mode := pickS(k.R, []string{"--soft", "--mixed", "--hard", ""})
	var arg string
	if k.chance(k.Hostile + 5) {
		k.invalid = "bad-reflog-position"
		arg = pickS(k.R, []string{fmt.Sprintf("HEAD@{%d}", n), fmt.Sprintf("HEAD@{%d}", n+1), "HEAD@{99}", "HEAD@{-1}", "HEAD@{}", "HEAD@{a}", "HEAD@1", "xHEAD@{1}y", "HEAD@{1}{2}", "HEAD", "main", "",
			"HEAD@{2147483648}", "HEAD@{4294967296}", "HEAD@{9223372036854775807}", "HEAD@{9223372036854775808}", "HEAD@{18446744073709551615}", "HEAD@{18446744073709551616}", "HEAD@{99999999999999999999999}"})
	} else if n > 0 {
		arg = k.posArg(k.R.IntN(n))
	} else {
		arg = "HEAD@{0}"
	}
	args := []string{"reset"}
	if mode != "" {
		args = append(args, mode)
	}
	if k.chance(3) {
		k.invalid = "contradictory-flags"
		args = append(args, "--soft", "--hard")
	}
	if arg != "" || k.chance(50) {
		args = append(args, arg)
	}
	if n == 0 {
		k.invalid = "no-reflog"
	}
	k.goit(args...)
}

func (k *Walker) doUpdateRef() {
	sn := k.W.State()
	r := sn.Repo()
	var commits, others []string
	for _, id := range gitfmt.SortedKeys(r.Objects) {
		if o, ok := r.Obj(id); ok {
			if o.Kind == "commit" {
				commits = append(commits, id)
			} else {
				others = append(others, id)
			}
		}
	}
	br := k.branchName(true)
	ref := "refs/heads/" + br
	var id string
	switch {
	case k.chance(k.Hostile + 10):
		k.invalid = "bad-object-id"
		alts := []string{strings.Repeat("0", 40), strings.Repeat("g", 40), "abc", strings.Repeat("a", 40), ""}
		if o, ok := k.pick(others); ok {
			alts = append(alts, o, o, o)
		}
		id = pickS(k.R, alts)
	default:
		id, _ = k.pick(commits)
	}
	if k.chance(5) {
		k.invalid = "bad-ref-path"
		ref = pickS(k.R, []string{br, "heads/" + br, "refs/tags/" + br, "refs/heads/"})
	}
	if id == "" {
		k.invalid = "no-commit"
	}
	k.goit("update-ref", ref, id)
}

// Enable adds an optional action to the walker's repertoire.
func (k *Walker) Enable(action string, weight int) {
	if _, there := k.Weights[action]; !there {
		k.keys = append(k.keys, action)
		sort.Strings(k.keys)
	}
	k.total += weight - k.Weights[action]
	k.Weights[action] = weight
}

// isLinkTarget: some symbolic link of the working tree points at p. Such a file is not turned into a directory
// (a link to a directory makes other paths lead "through" it: outside what the models cover).
func (k *Walker) isLinkTarget(p string) bool {
	for x, what := range k.W.State().Odd {
		if t, ok := strings.CutPrefix(what, "symlink -> "); ok && strings.HasPrefix(x, "w/") {
			if path.Clean(path.Join(path.Dir(x[2:]), t)) == p {
				return true
			}
		}
	}
	return false
}
