package mon

import (
	"bytes"
	"fmt"
	"path"
	"sort"
	"strings"

	"verif/harness/core"
	"verif/harness/gen"
	"verif/harness/gitfmt"
	"verif/harness/sandbox"
)

// AddModel is what the statement of C04/C17 implies for `add args...` issued at the root.
type AddModel struct {
	DomainOK   bool              // false: an argument is outside the domain the oracles cover
	Unknown    []string          // arguments that are neither on disk nor tracked
	OpenDir    []string          // deleted-but-tracked directories (refusal or unstaging both accepted)
	Sel        map[string][]byte // path -> bytes to be staged
	Gone       map[string]bool   // tracked paths that no longer exist -> unstaged
	DontCare   map[string]bool   // paths whose staging the statement does not settle
	Through    map[string][]byte // existing files named by a spelling that leads through a file ("f/", "f/.", "nodir/../f"): staged or left alone
	ArgClasses []string
}

func trackedBeneath(idx map[string]string, d string) []string {
	var out []string
	for p := range idx {
		if Under(p, d) {
			out = append(out, p)
		}
	}
	sort.Strings(out)
	return out
}

func ModelAdd(pre *sandbox.Snap, args []string) *AddModel {
	m := &AddModel{DomainOK: true, Sel: map[string][]byte{}, Gone: map[string]bool{}, DontCare: map[string]bool{}}
	idx0, ok := idx(pre)
	if !ok {
		m.DomainOK = false
		return m
	}
	wt := pre.WT()
	ir := ParseIgnore(wt)
	for _, a := range args {
		c, okc := CleanArgAt(pre, a)
		if !okc {
			m.DomainOK = false
			m.ArgClasses = append(m.ArgClasses, "escapes-root")
			continue
		}
		throughLink := false
		for i := 0; i < len(c); i++ {
			if c[i] == '/' && strings.HasPrefix(pre.Odd["w/"+c[:i]], "symlink -> ") {
				throughLink = true // a directory of the path is a symbolic link: what lies "beneath" it is another directory's content
			}
		}
		if throughLink {
			m.DomainOK = false
			m.ArgClasses = append(m.ArgClasses, "through-a-linked-directory")
			continue
		}
		if _, readable := pre.Files["w/"+c]; strings.HasPrefix(pre.Odd["w/"+c], "symlink -> ") && !readable {
			// a link to nowhere or to a directory: what naming it means is not settled by the statement
			m.DomainOK = false
			m.ArgClasses = append(m.ArgClasses, "link-to-directory-or-nowhere")
			continue
		}
		if (strings.HasPrefix(a, "/") || strings.HasPrefix(path.Clean(a), "../w")) && !ExistsOnDisk(pre, c) {
			// an absolute or through-the-parent spelling of something that is not on disk (add understands such
			// spellings through the file system only): outside the domain
			m.DomainOK = false
			m.ArgClasses = append(m.ArgClasses, "absolute-missing")
			continue
		}
		if !strings.HasPrefix(a, "/") && !InGoit(c) && IsFileOnDisk(pre, c) && !resolvesOnDisk(pre, a) {
			// the spelling names nothing the OS can find, the name it cleans to is an existing file: a refusal is
			// legitimate, so is staging the file; the entry must not be lost
			m.Unknown = append(m.Unknown, a)
			if m.Through == nil {
				m.Through = map[string][]byte{}
			}
			m.Through[c] = wt[c]
			m.ArgClasses = append(m.ArgClasses, "through-file")
			continue
		}
		if InGoit(c) {
			if _, isFile := pre.Files["w/"+c]; !isFile && !pre.Dirs["w/"+c] {
				m.Unknown = append(m.Unknown, a) // does not exist: refusing the command is legitimate
				m.ArgClasses = append(m.ArgClasses, "unknown")
				continue
			}
			m.ArgClasses = append(m.ArgClasses, "inside-goit")
			continue // must stage nothing
		}
		switch {
		case IsFileOnDisk(pre, c):
			switch ir.Ignored(c) {
			case "yes":
				// "no form of add ever stages a path excluded by .goitignore": also when it is tracked already
				m.ArgClasses = append(m.ArgClasses, "ignored-file")
			case "dontcare":
				m.DontCare[c] = true
				m.ArgClasses = append(m.ArgClasses, "ignore-unsettled")
			default:
				m.Sel[c] = wt[c]
				if _, tr := idx0[c]; tr {
					m.ArgClasses = append(m.ArgClasses, "tracked-file")
				} else {
					m.ArgClasses = append(m.ArgClasses, "untracked-file")
				}
			}
		case IsDirOnDisk(pre, c):
			if c == "." {
				m.ArgClasses = append(m.ArgClasses, "dot")
			} else {
				m.ArgClasses = append(m.ArgClasses, "directory")
			}
			if c != "." && ir.Ignored(c+"/x") == "yes" {
				m.ArgClasses = append(m.ArgClasses, "ignored-directory")
			}
			for f, b := range wt {
				if !Under(f, c) {
					continue
				}
				switch ir.Ignored(f) {
				case "yes":
					// excluded: must not be (re-)staged, tracked or not
				case "dontcare":
					m.DontCare[f] = true
				default:
					m.Sel[f] = b
				}
			}
			// tracked paths beneath an existing directory that are gone from disk: the statement
			// speaks of *named* paths only, so their fate is not settled
			for _, p := range trackedBeneath(idx0, c) {
				if _, on := wt[p]; !on {
					m.DontCare[p] = true
				}
			}
		default:
			if _, tr := idx0[c]; tr && ir.Ignored(c) != "no" {
				// tracked, deleted and excluded by a rule: "is unstaged" and "never staged/touched" pull in
				// different directions; the statements do not settle it
				m.DontCare[c] = true
				m.ArgClasses = append(m.ArgClasses, "deleted-tracked-ignored")
			} else if tr {
				m.Gone[c] = true
				m.ArgClasses = append(m.ArgClasses, "deleted-tracked-file")
			} else if len(trackedBeneath(idx0, c)) > 0 {
				m.OpenDir = append(m.OpenDir, c)
				m.ArgClasses = append(m.ArgClasses, "deleted-tracked-dir")
			} else {
				m.Unknown = append(m.Unknown, a)
				m.ArgClasses = append(m.ArgClasses, "unknown")
			}
		}
	}
	return m
}

// Expected returns the acceptable staged sets (alternatives) after a successful add.
func (m *AddModel) Expected(idx0 map[string]string) []map[string]string {
	base := CopyMap(idx0)
	for p, b := range m.Sel {
		base[p] = gitfmt.BlobID(b)
	}
	for p := range m.Gone {
		if _, again := m.Sel[p]; !again {
			delete(base, p)
		}
	}
	alts := []map[string]string{base}
	for p, b := range m.Through {
		if _, sel := m.Sel[p]; sel || m.Gone[p] {
			continue // named by another argument as well: that one decides
		}
		// either left as it was (already in every alternative) or staged with the file's bytes
		for _, a := range append([]map[string]string{}, alts...) {
			alt := CopyMap(a)
			alt[p] = gitfmt.BlobID(b)
			alts = append(alts, alt)
		}
	}
	if len(m.OpenDir) > 0 {
		alt := CopyMap(base)
		for _, d := range m.OpenDir {
			for _, p := range trackedBeneath(idx0, d) {
				delete(alt, p)
			}
		}
		alts = append(alts, alt)
	}
	return alts
}

func withoutKeys(m map[string]string, drop map[string]bool) map[string]string {
	if len(drop) == 0 {
		return m
	}
	o := map[string]string{}
	for k, v := range m {
		if !drop[k] {
			o[k] = v
		}
	}
	return o
}

type C04Mon struct{}

func (C04Mon) After(w *core.World, st *core.Step) {
	if st.Kind != "goit" || !st.Pre.HasGoit() {
		return
	}
	switch st.Cmd() {
	case "add":
		checkAdd(w, st, "C04")
	case "rm":
		checkRm(w, st)
	}
}

func frameRefs(w *core.World, st *core.Step, oracle string) {
	pre, post := st.Pre.Repo(), st.Post.Repo()
	if !EqualMaps(pre.Branches, post.Branches) || pre.HeadRaw != post.HeadRaw {
		w.Fail(oracle, "refs-changed", st.Cmd(), "%s changed refs/HEAD", st.String())
	}
}

func checkAdd(w *core.World, st *core.Step, prop string) {
	c := w.C
	pa := ParseArgv(st.Argv)
	if len(pa.Flags) > 0 || len(pa.Pos) == 0 {
		return
	}
	idx0, ok0 := idx(st.Pre)
	if !ok0 {
		return
	}
	m := ModelAdd(st.Pre, pa.Pos)
	if !m.DomainOK {
		c.Count(prop + ".add-outside-domain")
		return
	}
	for _, ac := range m.ArgClasses {
		c.Class("add|" + ac)
	}
	sort.Strings(m.ArgClasses)
	c.Class("add-args|" + strings.Join(uniq(m.ArgClasses), "+"))
	idx1, ok1 := idx(st.Post)
	post := st.Post.Repo()
	trig := "none"
	if len(m.OpenDir) > 0 {
		trig = "deleted-tracked-dir"
	}
	// frame: no working file touched, refs unchanged — whatever the exit status
	c.Oracle(prop + ".add.frame")
	if d := wtDiff(st.Pre, st.Post); len(d) > 0 {
		w.Fail(prop+".add.frame", "worktree-changed", trig, "%s touched working files: %v", st.String(), firstN(d, 5))
	}
	frameRefs(w, st, prop+".add.frame")
	if !ok1 {
		w.Fail(prop+".add.index", "index-undecodable", trig, "after %s the index does not decode: %v", st.String(), post.IndexErr)
		return
	}
	if len(m.Unknown) > 0 {
		c.Oracle(prop + ".refusal-frame")
		if st.Exit != 0 {
			if !EqualMaps(idx0, idx1) {
				w.Fail(prop+".refusal-frame", "index-changed", "unknown-path", "%s names unknown %v, was refused, but changed the index: %s", st.String(), m.Unknown, DiffMaps(idx0, idx1))
			}
			return
		}
		// accepted although an argument is unknown: the rest must still be exact
	}
	if st.Exit != 0 {
		// a refusal is acceptable only for a deleted tracked directory; then nothing may change
		if len(m.OpenDir) > 0 {
			c.Oracle(prop + ".refusal-frame")
			if !EqualMaps(idx0, idx1) {
				w.Fail(prop+".refusal-frame", "index-changed", trig, "%s was refused but changed the index: %s", st.String(), DiffMaps(idx0, idx1))
			}
			return
		}
		// a working tree that holds a link to nowhere (or to a directory) cannot be read completely: a refusal that
		// changes nothing is the right answer there
		for p, what := range st.Pre.Odd {
			if _, readable := st.Pre.Files[p]; strings.HasPrefix(p, "w/") && strings.HasPrefix(what, "symlink -> ") && !readable {
				c.Count(prop + ".add-refused-with-unreadable-link")
				if !EqualMaps(idx0, idx1) && !HasConflict(m.Expected(idx0)[0]) {
					c.Oracle(prop + ".refusal-frame")
				}
				return
			}
		}
		// the statement is about the state after the command, not its exit status: a non-zero
		// exit is a violation only if the named paths were not staged as stated
		c.Oracle(prop + ".add.valid-refused")
		got := withoutKeys(idx1, m.DontCare)
		for _, a := range m.Expected(idx0) {
			if EqualMaps(withoutKeys(a, m.DontCare), got) {
				c.Count(prop + ".add.nonzero-exit-but-exact")
				return
			}
		}
		if HasConflict(m.Expected(idx0)[0]) {
			return
		}
		w.Fail(prop+".add.valid-refused", "valid-add-not-applied", strings.Join(uniq(m.ArgClasses), "+"), "%s names only existing or tracked paths, exited %d and did not stage them as stated: %s | %s", st.String(), st.Exit, DiffMaps(withoutKeys(m.Expected(idx0)[0], m.DontCare), got), clipS(st.Stdout+st.Stderr, 120))
		return
	}
	// exact staged set
	c.Oracle(prop + ".add.index")
	alts := m.Expected(idx0)
	matched := false
	got := withoutKeys(idx1, m.DontCare)
	for _, a := range alts {
		if EqualMaps(withoutKeys(a, m.DontCare), got) {
			matched = true
		}
	}
	if !matched && !HasConflict(alts[0]) {
		exp := withoutKeys(alts[0], m.DontCare)
		sym := "index-differs"
		for p := range got {
			if InGoit(p) {
				sym = "staged-goit-path"
			}
		}
		w.Fail(prop+".add.index", sym, trig, "after %s the staged set is not the expected one: %s", st.String(), DiffMaps(exp, got))
	}
	// every selected blob is stored and decodes to the file's bytes
	c.Oracle(prop + ".add.blob")
	for p, b := range m.Sel {
		id := gitfmt.BlobID(b)
		o, okb := post.Obj(id)
		if !okb {
			w.Fail(prop+".add.blob", "blob-missing", trig, "after %s the blob %s of %q is missing or undecodable", st.String(), short(id), p)
		} else if o.Kind != "blob" || !bytes.Equal(o.Body, b) {
			w.Fail(prop+".add.blob", "blob-bytes-differ", trig, "after %s the blob %s of %q does not hold the file's bytes", st.String(), short(id), p)
		}
	}
	// re-adding unchanged files changes nothing at all
	if EqualMaps(alts[0], idx0) && len(m.OpenDir) == 0 && len(m.DontCare) == 0 {
		c.Oracle(prop + ".add.idempotent")
		if d := goitDiff(st.Pre, st.Post); len(d) > 0 {
			w.Fail(prop+".add.idempotent", "goit-changed", trig, "%s re-adds unchanged files but changed %v", st.String(), firstN(d, 5))
		}
	}
}

func uniq(xs []string) []string {
	var o []string
	for i, x := range xs {
		if i == 0 || x != xs[i-1] {
			o = append(o, x)
		}
	}
	return o
}

func checkRm(w *core.World, st *core.Step) {
	c := w.C
	pa := ParseArgv(st.Argv)
	if !pa.OnlyFlags("-r", "--rec") || len(pa.Pos) == 0 {
		return
	}
	idx0, ok0 := idx(st.Pre)
	if !ok0 {
		return
	}
	idx1, ok1 := idx(st.Post)
	wt0, wt1 := st.Pre.WT(), st.Post.WT()
	sel := map[string]bool{}
	optional := map[string]bool{}
	var unknown []string
	var classes []string
	domainOK, dotOpen, typeConflict := true, false, false
	for _, a := range pa.Pos {
		cp, okc := CleanArg(a) // absolute spellings are only part of add's domain
		if !okc || InGoit(cp) {
			domainOK = false
			continue
		}
		if _, tr := idx0[cp]; tr {
			sel[cp] = true
			// also a directory with tracked paths beneath (file/directory replaced): both readings accepted
			for _, p := range trackedBeneath(idx0, cp) {
				optional[p] = true
			}
			if IsDirOnDisk(st.Pre, cp) {
				typeConflict = true
			}
			if IsFileOnDisk(st.Pre, cp) {
				classes = append(classes, "tracked-file")
			} else {
				classes = append(classes, "deleted-tracked-file")
			}
		} else if cp == "." {
			dotOpen = true
			classes = append(classes, "dot")
		} else if tb := trackedBeneath(idx0, cp); len(tb) > 0 {
			for _, p := range tb {
				sel[p] = true
				if IsDirOnDisk(st.Pre, p) {
					typeConflict = true
				}
			}
			if IsDirOnDisk(st.Pre, cp) {
				classes = append(classes, "tracked-dir")
			} else {
				classes = append(classes, "deleted-tracked-dir")
			}
		} else {
			unknown = append(unknown, a)
			if ExistsOnDisk(st.Pre, cp) {
				classes = append(classes, "untracked-on-disk")
			} else {
				classes = append(classes, "unknown")
			}
		}
	}
	if !domainOK {
		c.Count("C04.rm-outside-domain")
		return
	}
	sort.Strings(classes)
	c.Class("rm-args|" + strings.Join(uniq(classes), "+"))
	trig := strings.Join(uniq(classes), "+")
	if !ok1 {
		w.Fail("C04.rm.exact", "index-undecodable", trig, "after %s the index does not decode", st.String())
		return
	}
	if dotOpen {
		// "." names the root directory: refusing without change or removing every tracked file are both accepted
		all := map[string]bool{}
		for p := range idx0 {
			all[p] = true
		}
		if st.Exit == 0 || !EqualMaps(idx0, idx1) {
			sel = all
		}
	}
	// collateral: whatever the exit status
	c.Oracle("C04.rm.collateral")
	for p, b := range wt0 {
		if sameLink(st, p) {
			continue // still the same link: what it shows is another file's state
		}
		nb, still := wt1[p]
		if !still && !sel[p] && !optional[p] {
			w.Fail("C04.rm.collateral", "unselected-file-deleted", trig, "%s deleted %q which it did not name (tracked: %v)", st.String(), p, idx0[p] != "")
		} else if still && !bytes.Equal(b, nb) {
			w.Fail("C04.rm.collateral", "file-modified", trig, "%s modified %q", st.String(), p)
		}
	}
	for p := range wt1 {
		if _, was := wt0[p]; !was && !sameLink(st, p) {
			w.Fail("C04.rm.collateral", "file-created", trig, "%s created %q", st.String(), p)
		}
	}
	for p, id := range idx0 {
		if optional[p] && !sel[p] {
			if _, still := idx1[p]; !still || idx1[p] == id {
				continue
			}
		}
		if !sel[p] && idx1[p] != id {
			w.Fail("C04.rm.collateral", "unselected-entry-changed", trig, "%s changed the staged entry %q which it did not name", st.String(), p)
		}
	}
	for p := range idx1 {
		if _, was := idx0[p]; !was {
			w.Fail("C04.rm.collateral", "entry-appeared", trig, "%s added the staged entry %q", st.String(), p)
		}
	}
	frameRefs(w, st, "C04.rm.collateral")
	if d := goitDiff(st.Pre, st.Post, "index"); len(d) > 0 {
		w.Fail("C04.rm.collateral", "goit-changed", trig, "%s changed %v", st.String(), firstN(d, 5))
	}
	if len(unknown) > 0 {
		c.Oracle("C04.refusal-frame")
		if st.Exit == 0 {
			w.Fail("C04.refusal-frame", "unknown-accepted", trig, "%s names %v known to neither the index nor ... and exited 0", st.String(), unknown)
		} else if same, d := sameSandbox(st.Pre, st.Post); !same {
			w.Fail("C04.refusal-frame", "state-changed", trig, "%s names unknown %v, was refused, but changed %v", st.String(), unknown, firstN(d, 5))
		}
		return
	}
	// all arguments known
	exact := func() string {
		for p := range sel {
			if _, still := idx1[p]; still {
				return fmt.Sprintf("%q is still staged", p)
			}
			if _, still := wt1[p]; still {
				if _, wasFile := wt0[p]; wasFile {
					return fmt.Sprintf("%q is still in the working tree", p)
				}
			}
			// a tracked link is a path of the working tree also when what it points to is gone
			if lk := st.Post.Odd["w/"+p]; strings.HasPrefix(lk, "symlink -> ") && st.Pre.Odd["w/"+p] == lk {
				return fmt.Sprintf("the link %q is still in the working tree", p)
			}
		}
		return ""
	}
	c.Oracle("C04.rm.exact")
	if st.Exit == 0 || !typeConflict {
		if why := exact(); why != "" && !(dotOpen && st.Exit != 0) {
			w.Fail("C04.rm.exact", "selected-path-survives", trig, "after %s (exit %d): %s", st.String(), st.Exit, why)
		}
	}
	if st.Exit != 0 {
		c.Count("C04.rm.nonzero-exit")
	}
}

func runC04(c *core.Ctx) {
	n := c.Pick(500, 4000)
	c.RunHistories(n, Registry["C04"].Mons, func(w *core.World) {
		wts := map[string]int{
			"edit-twin-file": 4, "edit-mod-old": 3, "edit-new": 14, "edit-copy": 2, "edit-copydir": 1, "edit-mod": 8, "edit-mod-samesize": 4, "edit-rm": 8, "edit-rmdir": 4, "edit-same": 2, "edit-touch": 1,
			"add": 28, "add-all": 2, "rm": 16, "commit": 5, "commit-all": 1,
			"restore-staged": 3, "reset": 2, "restore": 1,
		}
		k := NewWalker(w, gen.NameOpts{Space: true, NonASCII: w.Hist%3 == 0, Meta: w.Hist%2 == 0, MaxDepth: 4, N: 6 + w.Hist%5}, wts)
		if w.Hist%4 == 1 {
			k.Enable("edit-link-over", 5) // links at tracked paths: rm removes the link, not what it points to
		}
		k.Hostile = 8
		k.Swap = false
		if w.Hist%5 == 2 {
			k.Swap = true
			k.Weights["edit-swap"] = 6
			k.keys = append(k.keys, "edit-swap")
			sort.Strings(k.keys)
			k.total += 6
		}
		k.MaxContent = 5000
		k.Init()
		for i, p := range k.Pool {
			if i >= 5 {
				break
			}
			w.Write(p, k.content())
		}
		if w.Hist == 6 || (c.Thorough() && w.Hist%1500 == 6) {
			// a staging area of 65,535 entries (the file is put there as a whole: staging them one by one would take minutes),
			// then add and rm of single paths: the count passes 65,536 = 2^16
			var es []gitfmt.IndexEntry
			id := gitfmt.BlobID([]byte("x\n"))
			for i := 0; i < 65535; i++ {
				es = append(es, gitfmt.IndexEntry{ID: id, Path: fmt.Sprintf("w/f%05d", i)})
			}
			w.Write("w/f00000", []byte("x\n"))
			k.goit("add", "w/f00000") // the blob every crafted entry names is in the store
			w.Write(".goit/index", gitfmt.EncodeIndex(es))
			w.Write("new.txt", []byte("new\n"))
			w.Write("w/f00003", []byte("x\n"))
			k.goit("add", "new.txt")
			k.goit("add", "w/f00003")
			k.goit("rm", "w/f00002")
			k.goit("add", "new.txt")
			c.Count("scale.staging-area-of-65536-entries")
			return
		}
		if w.Hist%8 == 3 {
			// a tracked link and the file it points to, removed by one command in either order
			w.Write("lk/tgt", k.content())
			w.Symlink("lk/lnk", "tgt")
			w.Symlink("lk/z-lnk", "tgt")
			k.goit("add", "lk")
			if w.Hist%16 == 3 {
				k.goit("rm", "lk/tgt", "lk/lnk")
			} else {
				k.goit("rm", "lk/lnk", "lk/tgt")
			}
			k.goit("rm", "lk/z-lnk")
		}
		if w.Hist == 2 || (c.Thorough() && w.Hist%1500 == 2) {
			// two files just beyond 100 MiB that differ only in their last bytes
			w.EditRand("huge/a.bin", "c04-huge", 100<<20+5)
			w.EditRand("huge/b.bin", "c04-huge", 100<<20+6)
			k.goit("add", "huge/a.bin")
			k.goit("add", "huge")
			w.EditRand("huge/a.bin", "c04-huge", 100<<20+7)
			k.goit("add", ".")
			k.goit("rm", "huge/b.bin")
			c.Count("scale.huge-file-histories")
		}
		if w.Hist%10 == 8 {
			// file names containing a backslash: legal on this platform, not a separator
			for _, p := range []string{"a\\b", "dir\\file.txt", "d/x\\y", "c:\\temp\\z", "tail\\"} {
				w.Write(p, k.content())
			}
			k.goit("add", "a\\b", "dir\\file.txt")
			k.goit("add", "d", "c:\\temp\\z", "tail\\")
			k.goit("rm", "a\\b")
			w.Write("a\\b", k.content())
			k.goit("add", ".")
			c.Count("C04.names-with-backslash")
		}
		if w.Hist%10 == 4 {
			// paths that spell out the working directory's own absolute location again beneath it (an extracted
			// backup, tar -P, rsync -R), and paths that repeat their own prefix
			inner := "backup" + w.SB.W() + "/main.go"
			w.Write("main.go", k.content())
			w.Write(inner, k.content())
			w.Write("backup/README", k.content())
			w.Write("rep/rep/rep/x", k.content())
			k.goit("add", "main.go")
			k.goit("add", "backup", "rep")
			k.goit("rm", inner)
			w.Write(inner, k.content())
			k.goit("add", inner, "./rep/rep/../rep/rep/x")
			c.Count("C04.paths-embedding-the-working-directory")
		}
		if w.Hist%12 == 9 {
			// scale: hundreds of paths selected by one argument
			big := k.Populate(120 + k.R.IntN(280))
			k.goit("add", ".")
			k.PerturbMany(big)
			k.goit("add", "big", "src", "z")
			k.goit("rm", "big/sub")
			k.goit("add", ".")
			if k.chance(50) {
				k.Do("commit")
			}
		}
		steps := c.Pick(40, 45)
		for i := 0; i < steps; i++ {
			k.Step()
		}
	})
}

func init() {
	register(&Prop{ID: "C04", Level: "exploration",
		Rule:   "seeded random histories producing prior index states and working-tree shapes (untracked files inside tracked dirs, deleted tracked files/dirs); add/rm argument lists mixing files, directories, deleted-but-tracked paths, unknown paths, repeated arguments and ./x, x/, zz/../x spellings; after every add/rm the post-state is compared with the set the statement implies (exact staged set, blobs stored with the file's bytes, no working file touched, idempotent re-add; rm: exact removal, no collateral, refusal without change); distinct = (command, argument-kind multiset) classes",
		Mons:   func() []core.Monitor { return []core.Monitor{C04Mon{}} },
		Run:    runC04,
		Floors: []core.Floor{{Key: "C04.add.index", Min: 500}, {Key: "C04.rm.collateral", Min: 300}},
	})
}

// resolvesOnDisk: would the operating system find something under this relative spelling? Components are resolved
// from left to right: every component but the last must be an existing directory, also in front of ".." and ".",
// and a trailing "/" demands a directory.
func resolvesOnDisk(sn *sandbox.Snap, a string) bool {
	// the working directory is called "w": "../w" is the way out and back in
	for a == "../w" || strings.HasPrefix(a, "../w/") {
		a = strings.TrimPrefix(strings.TrimPrefix(a, "../w"), "/")
		if a == "" {
			return true
		}
	}
	var cur []string
	isDir := func() bool { return len(cur) == 0 || sn.Dirs["w/"+strings.Join(cur, "/")] }
	for _, part := range strings.Split(a, "/") {
		switch part {
		case "", ".":
			if !isDir() {
				return false
			}
		case "..":
			if !isDir() || len(cur) == 0 {
				return false
			}
			cur = cur[:len(cur)-1]
		default:
			if !isDir() {
				return false
			}
			cur = append(cur, part)
		}
	}
	if len(cur) == 0 {
		return true
	}
	p := strings.Join(cur, "/")
	_, isFile := sn.Files["w/"+p]
	return isFile || sn.Dirs["w/"+p]
}
