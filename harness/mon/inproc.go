package mon

import (
	"bytes"
	"encoding/json"
	"fmt"
	"os"
	"os/exec"
	"path/filepath"
	"strings"
	"syscall"
	"time"

	"verif/harness/core"
)

// RunIn runs the in-process monitor binary (goitin) for the property in `shards` child
// processes and merges their results. A child that dies is a finding about the input named
// in its progress file (fatal runtime errors cannot be recovered in-process).
func RunIn(c *core.Ctx, sub string, shards int, memLimitMB int) {
	if c.GoitIn == "" {
		c.Broken("in-process monitor binary missing")
		return
	}
	c.ParallelN(shards, func(i int) {
		work := filepath.Join(c.Scratch, "in", fmt.Sprintf("%s-%s-%d", c.Prop, sub, i))
		os.MkdirAll(work, 0o777)
		out := filepath.Join(work, "result.json")
		args := []string{"-prop", c.Prop, "-tier", c.Tier, "-seed", fmt.Sprint(c.Seed), "-shard", fmt.Sprint(i), "-of", fmt.Sprint(shards), "-work", work, "-out", out, "-goit", c.Goit}
		if sub != "" {
			args = append(args, "-sub", sub)
		}
		cmd := exec.Command(c.GoitIn, args...)
		var stderr bytes.Buffer
		cmd.Stderr = &stderr
		cmd.Stdout = nil
		cmd.Env = append(os.Environ(), "GOTRACEBACK=all", fmt.Sprintf("GOMEMLIMIT=%dMiB", memLimitMB*3/4))
		if err := cmd.Start(); err != nil {
			c.Broken("goitin start: " + err.Error())
			return
		}
		done := make(chan error, 1)
		go func() { done <- cmd.Wait() }()
		var err error
		timedOut := false
		select {
		case err = <-done:
		case <-time.After(40 * time.Minute):
			timedOut = true
			cmd.Process.Signal(syscall.SIGQUIT)
			err = <-done
		}
		b, rerr := os.ReadFile(out)
		if rerr == nil {
			var r core.InResult
			if jerr := json.Unmarshal(b, &r); jerr != nil {
				c.Broken("goitin result unparsable: " + jerr.Error())
				return
			}
			c.Merge(&r, i)
			os.RemoveAll(work)
			return
		}
		// no result: the process died
		prog, _ := os.ReadFile(out + ".progress")
		input := strings.TrimRight(string(prog), "\x00")
		if timedOut {
			c.Inconclusive(fmt.Sprintf("goitin shard %d exceeded the wall-clock watchdog at input: %s", i, clipS(input, 300)))
			return
		}
		st := stderr.String()
		if strings.Contains(st, "usage: goitin") || strings.Contains(st, "no in-process monitor") {
			c.Broken("goitin: " + clipS(st, 300))
			return
		}
		sym := "process-died"
		switch {
		case strings.Contains(st, "fatal error: stack overflow") || strings.Contains(st, "goroutine stack exceeds"):
			sym = "fatal:stack-overflow"
		case strings.Contains(st, "out of memory") || strings.Contains(st, "cannot allocate"):
			sym = "fatal:out-of-memory"
		case strings.Contains(st, "fatal error:"):
			sym = "fatal:other"
		case strings.Contains(st, "panic:"):
			sym = "panic:unrecovered"
		}
		f := core.Failure{Prop: c.Prop, Oracle: c.Prop + ".fatal", Symptom: sym, Trigger: "in-process", Hist: i,
			Detail: fmt.Sprintf("in-process monitor died (%v) at input: %s | %s", err, clipS(input, 600), clipS(firstFatal(st), 300))}
		if c.Fail(f) {
			c.WriteWitness(&core.Witness{Kind: "custom", Hist: i, Failures: []core.Failure{f}})
		}
	})
}

func firstFatal(st string) string {
	for _, ln := range strings.Split(st, "\n") {
		if strings.HasPrefix(ln, "fatal error:") || strings.HasPrefix(ln, "panic:") || strings.HasPrefix(ln, "runtime:") {
			return ln
		}
	}
	return clipS(st, 200)
}
