package mon

import (
	"bytes"
	"encoding/hex"
	"fmt"
	"sort"
	"strings"

	"verif/harness/core"
	"verif/harness/gen"
	"verif/harness/gitfmt"
	"verif/harness/sandbox"
)

// headSnapshot returns the flattened snapshot of HEAD's commit; exists=false before the first commit.
func headSnapshot(r *sandbox.Repo) (snap map[string]string, exists bool, err error) {
	h := r.HeadCommit()
	if h == "" {
		return map[string]string{}, false, nil
	}
	s, err := r.SnapOf(h)
	return s, true, err
}

// stagedDiff: path -> label, from independent data.
func stagedDiff(idx0, head map[string]string) map[string]string {
	out := map[string]string{}
	for p, id := range idx0 {
		if hid, ok := head[p]; !ok {
			out[p] = "new file"
		} else if hid != id {
			out[p] = "modified"
		}
	}
	for p := range head {
		if _, ok := idx0[p]; !ok {
			out[p] = "deleted"
		}
	}
	return out
}

func sibRelation(m map[string]string) bool {
	dirs := map[string]bool{}
	for p := range m {
		if i := strings.Index(p, "/"); i > 0 {
			dirs[p[:i]] = true
		}
	}
	for d := range dirs {
		for p := range m {
			first := strings.SplitN(p, "/", 2)[0]
			if first != d && strings.HasPrefix(first, d) && len(first) > len(d) && first[len(d)] < '/' {
				return true
			}
		}
	}
	return false
}

// ---------------------------------------------------------------------------------------
// C07

type C07Mon struct{}

func (C07Mon) After(w *core.World, st *core.Step) {
	if st.Kind != "goit" || !st.Pre.HasGoit() {
		return
	}
	c := w.C
	pre := st.Pre.Repo()
	idx0, ok0 := pre.Idx()
	if !ok0 || !pre.HeadOK {
		return
	}
	head, exists, err := headSnapshot(pre)
	if err != nil {
		return
	}
	switch st.Cmd() {
	case "status":
		if len(st.Argv) == 1 && st.Exit != 0 && st.Signal == "" && !st.Res.TimedOut && !HasConflict(idx0) {
			// the staged-changes report is not given at all although the staging area and HEAD decode
			if _, ok := expectWorktreeReport(st.Pre); ok {
				c.Oracle("C07.status-set")
				w.Fail("C07.status-set", "status-fails", "none", "%s exits %d on a repository whose staging area, HEAD and objects decode: %s", st.String(), st.Exit, clipS(firstLine(st.Stdout+st.Stderr), 160))
			}
		}
		if len(st.Argv) != 1 || st.Exit != 0 {
			return
		}
		if !exists {
			c.Count("C07.status-before-first-commit")
			return
		}
		want := stagedDiff(idx0, head)
		trig := "none"
		if sibRelation(head) || sibRelation(idx0) {
			trig = "sibling-sorts-before-dir"
		}
		if HasConflict(idx0) {
			c.Count("C07.status-conflicted-index")
			return
		}
		for p := range want {
			if _, inHead := head[p]; !inHead {
				for q := range head {
					if strings.HasPrefix(q, p+"/") || strings.HasPrefix(p, q+"/") {
						trig = "file-dir-replaced"
					}
				}
			}
		}
		rep := ParseStatus(st.Stdout)
		c.Oracle("C07.status-set")
		if !EqualMaps(want, rep.Staged) || len(rep.Dups) > 0 {
			sym := "staged-report-differs"
			if len(want) == 0 {
				sym = "clean-reported-dirty"
			}
			w.Fail("C07.status-set", sym, trig, "%s: 'Changes to be committed' should be {%s} but is {%s} %v", st.String(), fmtLab(want), fmtLab(rep.Staged), rep.Dups)
		}
		kinds := map[string]bool{}
		for _, l := range want {
			kinds[l] = true
		}
		c.Class(fmt.Sprintf("C07.status|%s|%v|sib%v", nameShape(head), SortedSet(kinds), trig))
		if prev, _ := w.Shadow["c07.lastCommitOK"].(bool); prev {
			c.Oracle("C07.post-commit-clean")
			if rep.HasStagedBlock || len(rep.Staged) > 0 {
				w.Fail("C07.post-commit-clean", "dirty-after-commit", trig, "status immediately after a successful commit lists staged changes: {%s}", fmtLab(rep.Staged))
			}
		}
	case "commit":
		pa := ParseArgv(st.Argv)
		if _, hasMsg := pa.Flag("-m", "--message"); !hasMsg || len(pa.Pos) > 0 || !pa.OnlyFlags("-m", "--message") {
			return
		}
		_, _, nameSet, emailSet := effectiveIdentity(pre)
		if !nameSet || !emailSet {
			return
		}
		if HasConflict(idx0) {
			return
		}
		post := st.Post.Repo()
		same := EqualMaps(idx0, head)
		if !exists {
			same = len(idx0) == 0
		}
		trig := "none"
		if sibRelation(head) || sibRelation(idx0) {
			trig = "sibling-sorts-before-dir"
		}
		if len(idx0) == 0 && exists {
			trig = "emptied-index"
		}
		if same {
			c.Oracle("C07.nothing-refused")
			newCommit := false
			for id, oi := range post.Objects {
				if _, was := pre.Objects[id]; !was && oi.Err == nil && oi.Obj.Kind == "commit" {
					newCommit = true
				}
			}
			if st.Exit == 0 || newCommit || !EqualMaps(pre.Branches, post.Branches) {
				w.Fail("C07.nothing-refused", "identical-commit-accepted", trig, "%s: staging area equals the HEAD snapshot but exit=%d newCommitObject=%v branchesMoved=%v", st.String(), st.Exit, newCommit, !EqualMaps(pre.Branches, post.Branches))
			}
			c.Class("C07.commit-nothing|" + nameShape(head))
		} else {
			c.Oracle("C07.difference-accepted")
			if st.Exit != 0 {
				w.Fail("C07.difference-accepted", "difference-refused", trig, "%s: staging area differs from HEAD (%s) but the commit was refused: %s", st.String(), clipS(fmtLab(stagedDiff(idx0, head)), 160), clipS(firstLine(st.Stdout+st.Stderr), 160))
			}
			c.Class("C07.commit-diff|" + nameShape(idx0))
		}
	}
	if st.Cmd() == "commit" {
		w.Shadow["c07.lastCommitOK"] = st.Exit == 0
	} else {
		w.Shadow["c07.lastCommitOK"] = false
	}
}

func firstLine(s string) string {
	if i := strings.Index(s, "\n"); i >= 0 {
		return s[:i]
	}
	return s
}

func fmtLab(m map[string]string) string {
	var out []string
	for _, k := range gitfmt.SortedKeys(m) {
		out = append(out, fmt.Sprintf("%s %q", m[k], k))
	}
	if len(out) > 8 {
		out = append(out[:8], fmt.Sprintf("… %d more", len(out)-8))
	}
	return strings.Join(out, ", ")
}

// universe of paths around the byte order of '/'
var c06Universe = []string{
	"d", "d-old", "d.c", "d d", "d0", "ad", "da", "d/x", "d/y z", "d/sub/f", "ad/x", "a/d/x", "d-old/x", "d.c/y",
	"a(b", "a(b/x", "a+b/x", "a.b/x", "aXb/x", "[x]/y", "test/a", "test.c", "test-data", "test0", "lib/m.go", "lib.go", "lib-old", "x", "d/X", "D", "D/x", "Lib.go",
	// echoes: the name of a directory again beneath it
	"src/lib/libfoo.c", "src/lib/util.c", "a/b/abc", "lib/lib", "d/d", "d/sub/sub",
}

func conflictFree(ps []string) bool {
	for _, p := range ps {
		for _, q := range ps {
			if p != q && strings.HasPrefix(q, p+"/") {
				return false
			}
		}
	}
	return true
}

// subsets of the universe of size 1..k, conflict-free
func subsets(u []string, k int) [][]string {
	var out [][]string
	var rec func(start int, cur []string)
	rec = func(start int, cur []string) {
		if len(cur) > 0 && conflictFree(cur) {
			out = append(out, append([]string{}, cur...))
		}
		if len(cur) == k {
			return
		}
		for i := start; i < len(u); i++ {
			rec(i+1, append(cur, u[i]))
		}
	}
	rec(0, nil)
	return out
}

func runC07(c *core.Ctx) {
	// (a) bounded-exhaustive: every conflict-free subset P (|P| <= 2 quick / 3 thorough) of the
	// universe committed as HEAD, then each single-path mutation -> status, commit, status, commit.
	univ := c06Universe
	k := 2
	var sets [][]string
	if c.Thorough() {
		k = 3
		sets = subsets(univ, k)
	} else {
		sets = subsets(univ, k)
		// quick: a seeded sample of the pairs plus all singletons
		r := newRand(c.Seed, 7)
		var pick [][]string
		for _, s := range sets {
			if len(s) == 1 || r.IntN(100) < 100 {
				pick = append(pick, s)
			}
		}
		sets = pick
	}
	c.Extra["exhaustive_sets"] = len(sets)
	c.Extra["exhaustive_universe"] = univ
	c.Extra["exhaustive"] = c.Thorough()
	mutKinds := []string{"add-one", "remove-one", "modify-one", "none"}
	c.RunHistories(len(sets), Registry["C07"].Mons, func(w *core.World) {
		P := sets[w.Hist]
		wl := NewWalker(w, gen.NameOpts{}, nil)
		wl.Init()
		for _, p := range P {
			w.Write(p, []byte("v1 "+p+"\n"))
		}
		w.Goit(append([]string{"add"}, P...)...)
		w.Goit("commit", "-m", "base")
		w.Goit("status")
		mk := mutKinds[w.Rng.IntN(len(mutKinds))]
		if c.Thorough() {
			mk = mutKinds[w.Hist%len(mutKinds)]
		}
		switch mk {
		case "add-one":
			var cands []string
			for _, q := range univ {
				if conflictFree(append(append([]string{}, P...), q)) && !contains(P, q) {
					cands = append(cands, q)
				}
			}
			if len(cands) > 0 {
				q := cands[w.Rng.IntN(len(cands))]
				w.Write(q, []byte("new "+q+"\n"))
				w.Goit("add", q)
			}
		case "remove-one":
			q := P[w.Rng.IntN(len(P))]
			w.Goit("rm", q)
		case "modify-one":
			q := P[w.Rng.IntN(len(P))]
			w.Write(q, []byte("v2 "+q+"\n"))
			w.Goit("add", q)
		}
		c.Class("C07.exh|" + mk + "|" + nameShape(mapOf(P)))
		w.Goit("status")
		w.Goit("commit", "-m", "second")
		w.Goit("status")
		w.Goit("commit", "-m", "third (nothing)")
	})
	// (b) random histories
	n := c.Pick(400, 3000)
	base := len(sets)
	c.RunHistories(n, Registry["C07"].Mons, func(w *core.World) {
		w.Hist += base
		wts := map[string]int{
			"edit-new": 10, "edit-copy": 2, "edit-copydir": 1, "edit-mod": 10, "edit-rm": 4, "edit-rmdir": 2,
			"add": 16, "add-all": 2, "rm": 6, "commit": 12, "status": 16,
			"restore-staged": 6, "reset": 5, "restore": 1, "switch-c": 1, "switch": 1,
		}
		k := NewWalker(w, gen.NameOpts{Space: true, NonASCII: w.Hist%3 == 0, MaxDepth: 3, N: 6}, wts)
		k.Hostile = 3
		k.Swap = w.Hist%4 == 0
		if k.Swap {
			k.Weights["edit-swap"] = 3
			k.keys = append(k.keys, "edit-swap")
			sort.Strings(k.keys)
			k.total += 3
		}
		if (w.Hist-base)%7 == 4 {
			// the identity split between the two files: name in one, e-mail in the other
			k.goit("init")
			if w.Hist%2 == 0 {
				k.goit("config", "user.name", "Split Local")
				k.goit("config", "--global", "user.email", "global@example.com")
			} else {
				k.goit("config", "--global", "user.name", "Split Global")
				k.goit("config", "user.email", "local@example.com")
			}
		} else {
			k.Init()
		}
		for i, p := range k.Pool {
			if i >= 5 {
				break
			}
			w.Write(p, k.content())
		}
		k.Do("commit-all")
		if (w.Hist-base)%10 == 3 {
			// a name that contains the raw id of another entry: "path, id, path, id" laid end to end reads the same for the
			// committed entries (p1,h1)(p2,h2) and for the single staged entry (p1+h1+p2, h2)
			mk := func(tag string) ([]byte, string) {
				for i := 0; ; i++ {
					b := []byte(fmt.Sprintf("%s %d %d\n", tag, w.Hist, i))
					raw, _ := hex.DecodeString(gitfmt.BlobID(b))
					if bytes.IndexFunc(raw, func(r rune) bool { return r < 0x20 || r == '/' || r == 0x7f }) < 0 { // no separator, no control character (a line feed in a name makes any listing ambiguous)
						return b, string(raw)
					}
				}
			}
			d := pickS(k.R, []string{"sp/", "zz splice/", "0/"})
			ca, ra := mk("alpha")
			cb, _ := mk("beta")
			w.Write(d+"a0", ca)
			w.Write(d+"b0", cb)
			k.goit("add", d+"a0", d+"b0")
			k.goit("commit", "-m", "two entries")
			k.goit("rm", d+"a0", d+"b0")
			w.Write(d+"a0"+ra+d+"b0", cb)
			k.goit("add", ".")
			k.goit("status")
			k.goit("commit", "-m", "one entry whose name splices the two")
			k.goit("status")
			c.Count("C07.spliced-name-histories")
		}
		if w.Hist == base+1 || (c.Thorough() && (w.Hist-base)%1000 == 1) {
			// width: one directory with more than 2048 sub-directories (and a root with several hundred)
			var wide []string
			for i := 0; i < 2100; i++ {
				wide = append(wide, fmt.Sprintf("wide/d%04d/f", i))
			}
			for i := 0; i < 300; i++ {
				wide = append(wide, fmt.Sprintf("r%03d/g", i))
			}
			w.EditMany(wide, 1)
			k.goit("add", ".")
			k.goit("status")
			k.goit("commit", "-m", "wide")
			k.goit("status")
			k.goit("commit", "-m", "nothing")
			w.Write("wide/d2090/f", []byte("changed\n"))
			k.goit("add", "wide/d2090/f")
			k.goit("status")
			k.goit("commit", "-m", "one of many")
			k.goit("status")
			k.goit("rm", "wide/d0000/f", "r299/g")
			k.goit("status")
			k.goit("commit", "-m", "two fewer")
			c.Count("scale.wide-tree-histories")
		}
		if w.Hist%12 == 8 {
			// scale: a staged set of 120..400 paths (staging-area file and root tree beyond 4 KiB)
			big := k.Populate(120 + k.R.IntN(280))
			k.goit("add", ".")
			k.goit("status")
			k.Do("commit")
			k.goit("status")
			k.PerturbMany(big)
			k.goit("add", ".")
			k.goit("status")
		}
		steps := c.Pick(30, 36)
		for i := 0; i < steps; i++ {
			if w.Hist%4 == 1 && i == 6+w.Hist%11 {
				// ignore rules that appear AFTER paths they name were staged or committed: a staged difference is a staged
				// difference, whatever the rules say now
				for _, p := range []string{"build/o1", "out/o1", "a.log", "a.tmp", "dir/b.o", "notes.tmp"} {
					w.Write(p, k.content())
				}
				k.goit("add", "build", "out", "a.log", "a.tmp", "dir", "notes.tmp")
				if k.chance(50) {
					k.Do("commit")
					w.Write("a.log", k.content())
					w.Write("build/o1", k.content())
					k.goit("add", "a.log", "build")
				}
				w.Write(".goitignore", []byte("build/\nout/\n*.log\n*.tmp\n*.o\n"))
				k.goit("status")
				k.goit("commit", "-m", "staged before the rules were written")
				k.goit("status")
			}
			k.Step()
			if st := w.Steps[len(w.Steps)-1]; st.Cmd() == "commit" {
				k.goit("status")
				if k.chance(50) {
					k.goit("commit", "-m", k.message())
				}
			}
		}
	})
}

func contains(xs []string, x string) bool {
	for _, y := range xs {
		if y == x {
			return true
		}
	}
	return false
}

func mapOf(ps []string) map[string]string {
	m := map[string]string{}
	for _, p := range ps {
		m[p] = "x"
	}
	return m
}

// ---------------------------------------------------------------------------------------
// C13

type C13Mon struct{}

type wtExpect struct {
	Modified, Deleted, Untracked map[string]bool
	DontCare                     map[string]bool
}

func expectWorktreeReport(sn *sandbox.Snap) (*wtExpect, bool) {
	idx0, ok := idx(sn)
	if !ok {
		return nil, false
	}
	wt := sn.WT()
	ir := ParseIgnore(wt)
	e := &wtExpect{Modified: map[string]bool{}, Deleted: map[string]bool{}, Untracked: map[string]bool{}, DontCare: map[string]bool{}}
	dirs := sn.WTDirs()
	for p, id := range idx0 {
		ig := ir.Ignored(p)
		if ig != "no" {
			e.DontCare[p] = true // tracked and (possibly) ignored: the statement does not say which wins
			continue
		}
		b, on := wt[p]
		switch {
		case on && gitfmt.BlobID(b) != id:
			e.Modified[p] = true
		case on:
		default:
			// missing from the working tree as a file: gone, a directory in its place, or a parent replaced by a file
			_ = dirs
			e.Deleted[p] = true
		}
	}
	for p := range wt {
		if _, tr := idx0[p]; tr {
			continue
		}
		switch ir.Ignored(p) {
		case "yes":
		case "dontcare":
			e.DontCare[p] = true
		default:
			e.Untracked[p] = true
		}
	}
	return e, true
}

func cmpSet(want map[string]bool, got map[string]bool, dontcare map[string]bool) (missing, extra []string) {
	for p := range want {
		if !got[p] && !dontcare[p] {
			missing = append(missing, p)
		}
	}
	for p := range got {
		if !want[p] && !dontcare[p] {
			extra = append(extra, p)
		}
	}
	sort.Strings(missing)
	sort.Strings(extra)
	return
}

func keysWithLabel(m map[string]string, lab string) map[string]bool {
	o := map[string]bool{}
	for p, l := range m {
		if l == lab {
			o[p] = true
		}
	}
	return o
}

func (C13Mon) After(w *core.World, st *core.Step) {
	// remember whether only metamorphic edits happened since the last status
	if st.Kind == "edit" {
		if st.Intent["meta"] == "" {
			w.Shadow["c13.onlyMeta"] = false
		} else if _, ok := w.Shadow["c13.onlyMeta"]; ok && w.Shadow["c13.onlyMeta"].(bool) {
			w.Shadow["c13.metaKind"] = st.Intent["meta"]
		}
		return
	}
	if st.Kind != "goit" || !st.Pre.HasGoit() {
		return
	}
	if st.Cmd() != "status" {
		w.Shadow["c13.onlyMeta"] = false
		return
	}
	c := w.C
	if len(st.Argv) == 1 && st.Exit != 0 && st.Signal == "" && !st.Res.TimedOut {
		// no report at all: on a repository whose files decode, `status` has nothing to refuse
		if _, ok := expectWorktreeReport(st.Pre); ok {
			c.Oracle("C13.report-given")
			w.Fail("C13.report-given", "status-fails", "none", "%s exits %d on a repository whose staging area, HEAD and objects decode: %s", st.String(), st.Exit, clipS(firstLine(st.Stdout+st.Stderr), 160))
		}
	}
	if len(st.Argv) != 1 || st.Exit != 0 {
		w.Shadow["c13.onlyMeta"] = false
		return
	}
	e, ok := expectWorktreeReport(st.Pre)
	if !ok {
		return
	}
	c.Oracle("C13.report-given")
	rep := ParseStatus(st.Stdout)
	ir := ParseIgnore(st.Pre.WT())
	trig := "none"
	if ir.Present {
		trig = "with-ignore-file"
	}
	if len(st.Pre.Repo().Branches) == 0 {
		trig += "+no-commit-yet"
	}
	c.Oracle("C13.modified")
	if mi, ex := cmpSet(e.Modified, keysWithLabel(rep.NotStaged, "modified"), e.DontCare); len(mi)+len(ex) > 0 {
		w.Fail("C13.modified", symME(mi, ex), trig, "%s: modified should be %v; missing %v, extra %v", st.String(), firstN(SortedSet(e.Modified), 6), firstN(mi, 5), firstN(ex, 5))
	}
	c.Oracle("C13.deleted")
	if mi, ex := cmpSet(e.Deleted, keysWithLabel(rep.NotStaged, "deleted"), e.DontCare); len(mi)+len(ex) > 0 {
		w.Fail("C13.deleted", symME(mi, ex), trig, "%s: deleted should be %v; missing %v, extra %v", st.String(), firstN(SortedSet(e.Deleted), 6), firstN(mi, 5), firstN(ex, 5))
	}
	c.Oracle("C13.untracked")
	if mi, ex := cmpSet(e.Untracked, rep.Untracked, e.DontCare); len(mi)+len(ex) > 0 {
		sym := symME(mi, ex)
		for _, p := range ex {
			if InGoit(p) {
				sym = "goit-path-listed"
			}
		}
		w.Fail("C13.untracked", sym, trig, "%s: untracked should be %v; missing %v, extra %v", st.String(), firstN(SortedSet(e.Untracked), 6), firstN(mi, 5), firstN(ex, 5))
	}
	if len(rep.Dups) > 0 {
		w.Fail("C13.untracked", "listed-twice", trig, "%s: %v", st.String(), rep.Dups)
	}
	c.Class(fmt.Sprintf("C13|m%v|d%v|u%v|ign%v|depth%d|commit%v", len(e.Modified) > 0, len(e.Deleted) > 0, len(e.Untracked) > 0, ir.Present, maxDepth(st.Pre.WT()), len(st.Pre.Repo().Branches) > 0))
	// metamorphic: only same-bytes rewrites / mtime changes since the previous status => same report
	if om, _ := w.Shadow["c13.onlyMeta"].(bool); om {
		if prev, okp := w.Shadow["c13.lastOut"].(string); okp {
			kind, _ := w.Shadow["c13.metaKind"].(string)
			if kind != "" {
				id := "C13.metamorphic-identical-bytes"
				if kind == "mtime-only" {
					id = "C13.metamorphic-mtime"
				} else if kind == "mode-only" {
					id = "C13.metamorphic-mode"
				}
				c.Oracle(id)
				if prev != st.Stdout {
					w.Fail(id, "report-changed", kind, "status output changed although only %s edits happened since the previous status", kind)
				}
			}
		}
	}
	w.Shadow["c13.onlyMeta"] = true
	w.Shadow["c13.lastOut"] = st.Stdout
	delete(w.Shadow, "c13.metaKind")
}

func symME(mi, ex []string) string {
	switch {
	case len(mi) > 0 && len(ex) > 0:
		return "missing-and-extra"
	case len(mi) > 0:
		return "path-missing"
	default:
		return "path-extra"
	}
}

func maxDepth(wt map[string][]byte) int {
	d := 0
	for p := range wt {
		if n := strings.Count(p, "/"); n > d {
			d = n
		}
	}
	return d
}

// ignoreFile writes a .goitignore of "name/" and "*.ext" lines plus near-miss files.
func writeIgnoreScenario(k *Walker) {
	w := k.W
	r := k.R
	dirs := []string{"build", "out", "node_modules", "tmp d", "a-rather-long-output-directory"}
	exts := []string{".ext", ".log", ".o", ".tmp"}
	d := dirs[r.IntN(len(dirs))]
	e := exts[r.IntN(len(exts))]
	var lines []string
	if r.IntN(4) > 0 {
		lines = append(lines, d+"/")
	}
	if r.IntN(4) > 0 {
		lines = append(lines, "*"+e)
	}
	if r.IntN(3) == 0 {
		d2 := "src/gen"
		lines = append(lines, d2+"/")
		w.Write(d2+"/g.go", k.content())
		w.Write("src/keep.go", k.content())
	}
	var related [][2]string // paths that a second, related rule decides
	if r.IntN(3) == 0 {
		// two rules where one is a string prefix of the other, in either order: *.js / *.json, out/ / out2/
		pairs := [][2]string{{".js", ".json"}, {".o", ".obj"}, {".c", ".cpp"}, {".log", ".log2"}, {".ext", ".ext2"}, {".gz", ".tar.gz"}, {".js", ".min.js"}, {".ts", ".d.ts"}, {".tar.gz", ".gz2"}}
		pr := pairs[r.IntN(len(pairs))]
		a, b := "*"+pr[0], "*"+pr[1]
		if r.IntN(2) == 0 {
			a, b = b, a
		}
		lines = append(lines, a, b)
		related = append(related, [2]string{"pkg" + pr[0], "x"}, [2]string{"pkg" + pr[1], "x"}, [2]string{"sub/data" + pr[1], "x"})
		if r.IntN(2) == 0 {
			dp := [][2]string{{"out", "out2"}, {"gen", "gen.d"}, {"tmp d", "tmp d2"}}[r.IntN(3)]
			x, y := dp[0]+"/", dp[1]+"/"
			if r.IntN(2) == 0 {
				x, y = y, x
			}
			lines = append(lines, x, y)
			related = append(related, [2]string{dp[0] + "/o", "x"}, [2]string{dp[1] + "/o", "x"}, [2]string{dp[1] + "/deep/o", "x"})
		}
	}
	if len(lines) == 0 {
		lines = append(lines, d+"/")
	}
	for _, rp := range related {
		w.Write(rp[0], k.content())
	}
	if r.IntN(5) == 0 {
		// one rule that is not valid UTF-8 (a Latin-1 name): whatever it hides or not, the other rules keep counting
		odd := [][2]string{{"caf\xe9/", "caf\xe9/menu.txt"}, {"*.\xfcml", "doc.\xfcml"}, {"\xff\xfe/", "\xff\xfe/x"}}[r.IntN(3)]
		if r.IntN(2) == 0 {
			lines = append(lines, odd[0])
		} else {
			lines = append([]string{odd[0]}, lines...)
		}
		w.Write(odd[1], k.content())
		k.W.C.Count("scale.non-utf8-ignore-rule")
	}
	if r.IntN(6) == 0 {
		// scale: an ignore file of 5..12 KiB; the rules that matter come first, in the middle or last
		var pad []string
		for i, n := 0, 150+r.IntN(250); i < n; i++ {
			pad = append(pad, fmt.Sprintf("third_party/vendor-%03d-generated-output/", i))
		}
		switch r.IntN(3) {
		case 0:
			lines = append(lines, pad...)
		case 1:
			lines = append(pad, lines...)
		default:
			lines = append(append(append([]string{}, pad[:len(pad)/2]...), lines...), pad[len(pad)/2:]...)
		}
		k.W.C.Count("scale.long-ignore-file")
	}
	if r.IntN(3) == 0 {
		// blank lines between the rules, at the top, at the end (a blank line separates rules, it is not one)
		var spaced []string
		if r.IntN(2) == 0 {
			spaced = append(spaced, "")
		}
		for i, ln := range lines {
			spaced = append(spaced, ln)
			if i%2 == 0 || r.IntN(3) == 0 {
				spaced = append(spaced, "")
			}
		}
		lines = spaced
		k.W.C.Count("scale.ignore-file-with-blank-lines")
	}
	if r.IntN(8) == 0 {
		// the ignore file is a symbolic link to a rules file kept elsewhere (a dotfiles directory)
		w.Write("../home/dotfiles/goit-ignore-rules", []byte(strings.Join(lines, "\n")+"\n"))
		w.Symlink(".goitignore", "../home/dotfiles/goit-ignore-rules")
		k.W.C.Count("scale.ignore-file-is-a-symlink")
	} else if r.IntN(6) == 0 {
		// an ignore file saved with CR LF line ends (an editor on another platform): the rules are the same
		w.Write(".goitignore", []byte(strings.Join(lines, "\r\n")+"\r\n"))
		k.W.C.Count("scale.ignore-file-with-crlf")
	} else {
		w.Write(".goitignore", []byte(strings.Join(lines, "\n")+"\n"))
	}
	// ignored things and near misses
	w.Write(d+"/o1", k.content())
	w.Write(d+"/deep/o2", k.content())
	w.Write("sub"+d+"/o", k.content()) // near miss: name contains the directory name
	w.Write(d+"x/o", k.content())      // near miss
	w.Write("a"+e, k.content())        // ignored by extension
	w.Write("dir/b"+e, k.content())    // ignored by extension, nested
	w.Write("a"+e+"ra", k.content())   // near miss: a.extra
	w.Write("x.goit/f", k.content())   // near miss of Goit's own directory
	w.Write(".goitx/g", k.content())   // near miss
	if r.IntN(3) == 0 {
		// more names next to Goit's own directory: trailing dots / blanks, other letter case, as a directory deeper down
		w.Write(".goit./c.txt", k.content())
		w.Write(".goit /c.txt", k.content())
		w.Write("lib/.goit./d.txt", k.content())
		w.Write(".GOIT/e.txt", k.content())
		w.Write(".goit.tmp/f.txt", k.content())
	}
	w.Write("keep.txt", k.content())
}

func runC13(c *core.Ctx) {
	n := c.Pick(500, 4000)
	c.RunHistories(n, Registry["C13"].Mons, func(w *core.World) {
		wts := map[string]int{
			"edit-twin-file": 4, "edit-mod-old": 3, "edit-new": 12, "edit-copy": 2, "edit-copydir": 1, "edit-swap": 3, "edit-mod": 10, "edit-mod-samesize": 5, "edit-rm": 6, "edit-rmdir": 3, "edit-same": 2, "edit-touch": 2,
			"add": 12, "rm": 3, "commit": 3, "status": 26, "restore": 2, "reset": 1, "add-all": 1,
		}
		k := NewWalker(w, gen.NameOpts{Space: true, NonASCII: w.Hist%3 == 0, Meta: w.Hist%4 == 0, MaxDepth: 4, N: 7}, wts)
		k.Hostile = 3
		k.Swap = w.Hist%3 == 1 // file <-> directory replacements in a third of the histories
		k.Init()
		if w.Hist%2 == 0 {
			writeIgnoreScenario(k)
			w.Goit("status")
		}
		if w.Hist%5 != 0 {
			for i, p := range k.Pool {
				if i >= 4 {
					break
				}
				w.Write(p, k.content())
			}
			if w.Hist%3 != 0 {
				k.Do("commit-all")
			} else {
				k.AddAllTracked()
			}
		}
		if w.Hist == 3 || (c.Thorough() && w.Hist%1000 == 3) {
			// sizes: tracked files just beyond 16, 32 and 64 MiB (where "too big to load" paths begin), unchanged, then one
			// of them rewritten with other bytes of the same length, then only touched
			for _, mib := range []int64{16, 32, 64} {
				w.EditRand(fmt.Sprintf("huge/%dMiB.bin", mib), fmt.Sprint("c13-huge-", mib), mib<<20+5)
			}
			k.goit("add", "huge")
			k.goit("status")
			w.EditRand("huge/32MiB.bin", "c13-huge-other", 32<<20+5)
			k.goit("status")
			w.Edit("touch", "huge/64MiB.bin", nil)
			k.goit("status")
			k.goit("add", "huge")
			k.goit("status")
			w.Edit("rmdir", "huge", nil)
			k.goit("status")
			k.goit("add", "huge/16MiB.bin", "huge/32MiB.bin", "huge/64MiB.bin")
			c.Count("scale.huge-file-histories")
		}
		if w.Hist%25 == 11 {
			// scale: hundreds of tracked files, about half of them modified, a few deleted; the report is asked for
			// several times (it must be the same exact sets every time, whatever the scheduling of the process)
			big := k.Populate(300 + k.R.IntN(900))
			k.goit("add", ".")
			if k.chance(50) {
				k.Do("commit")
			}
			k.goit("status")
			k.PerturbMany(big)
			for i := 0; i < 8; i++ {
				k.goit("status")
			}
			k.W.C.Count("C13.scale-status-runs")
		}
		steps := c.Pick(36, 40)
		for i := 0; i < steps; i++ {
			if k.chance(14) {
				// metamorphic triple: status, identical-bytes rewrite or mtime-only change, status
				k.goit("status")
				if k.chance(50) {
					k.Do("edit-same")
				} else {
					k.Do("edit-touch")
				}
				k.goit("status")
			} else {
				k.Step()
			}
		}
		k.goit("status")
	})
}

func init() {
	register(&Prop{ID: "C07", Level: "exploration",
		Rule:   "(a) bounded-exhaustive: every conflict-free subset P of a 28-path universe built around the byte order of '/' (d, d-old, d.c, 'd d', d0, ad, d/x, test/, test.c, test-data, a(b, [x]/y …) with |P|<=2 (quick: seeded 45% sample of pairs + all singletons) / <=3 (thorough: all) committed as HEAD, then one single-path mutation (add/remove/modify/none) -> status, commit, status, commit; (b) seeded random histories with add/rm/restore --staged/reset between commits; oracle: staged-changes block == independently computed diff(index, HEAD snapshot) with labels, block absent right after a commit, commit refused iff index == HEAD snapshot; distinct = (HEAD name-shape, mutation kind / label set, sibling-sort relation)",
		Mons:   func() []core.Monitor { return []core.Monitor{C07Mon{}} },
		Run:    runC07,
		Floors: []core.Floor{{Key: "C07.status-set", Min: 500}, {Key: "C07.nothing-refused", Min: 150}, {Key: "C07.difference-accepted", Min: 150}},
	})
	register(&Prop{ID: "C13", Level: "exploration",
		Rule:   "seeded histories of edits (new, modify, rewrite-identical, mtime-only, delete, rmdir; depth<=4) and add/rm/commit over name sets with spaces/non-ASCII/metacharacters, half of them with a .goitignore of 'name/' and '*.ext' lines plus near-miss names (subname/, a.extra, x.goit/f, .goitx/g); after every `status` the sections 'Changes not staged' and 'Untracked files' are compared with sets computed from the byte snapshot alone; metamorphic: identical-bytes rewrite / mtime-only change => identical output; distinct = (modified?, deleted?, untracked?, ignore present, depth, has-commit) classes",
		Mons:   func() []core.Monitor { return []core.Monitor{C13Mon{}} },
		Run:    runC13,
		Floors: []core.Floor{{Key: "C13.untracked", Min: 800}, {Key: "C13.metamorphic-identical-bytes", Min: 30}, {Key: "C13.metamorphic-mtime", Min: 30}},
	})
}
