package mon

import (
	"bytes"
	"fmt"
	"path"
	"sort"
	"strings"

	"verif/harness/core"
	"verif/harness/gen"
	"verif/harness/gitfmt"
)

// ---------------------------------------------------------------------------------------
// C17 — Goit's own directory and ignored paths never enter the staging area

type C17Mon struct{}

func (C17Mon) After(w *core.World, st *core.Step) {
	if st.Kind != "goit" || !st.Pre.HasGoit() {
		return
	}
	c := w.C
	pre, post := st.Pre.Repo(), st.Post.Repo()
	ir := ParseIgnore(st.Pre.WT())
	trig := "no-ignore-file"
	if ir.Present {
		trig = "with-ignore-file"
	}
	switch st.Cmd() {
	case "add":
		checkAdd(w, st, "C17") // exact staged set incl. "nothing hidden without an ignore file"
		idx0, _ := pre.Idx()
		idx1, ok1 := post.Idx()
		if !ok1 {
			return
		}
		pa := ParseArgv(st.Argv)
		for _, a := range pa.Pos {
			if cp, ok := CleanArgAt(st.Pre, a); ok {
				form := "file"
				switch {
				case cp == ".":
					form = "dot"
				case InGoit(cp):
					form = "goit-path"
				case IsDirOnDisk(st.Pre, cp):
					form = "directory"
					if ir.Ignored(cp+"/x") == "yes" {
						form = "ignored-directory"
					} else {
						for f := range st.Pre.WT() {
							if Under(f, cp) && ir.Ignored(f) == "yes" {
								form = "parent-of-ignored"
							}
						}
					}
				case ir.Ignored(cp) == "yes":
					form = "ignored-file"
				}
				c.Class(fmt.Sprintf("C17|%s|%s|grown=%v", form, ruleKinds(ir), len(pre.Objects) > 0))
			}
		}
		c.Oracle("C17.staged-goit")
		for p := range idx1 {
			if InGoit(p) {
				if _, was := idx0[p]; !was {
					w.Fail("C17.staged-goit", "goit-path-staged", trig, "%s staged %q, a path inside Goit's own directory", st.String(), p)
				}
			}
		}
		c.Oracle("C17.staged-ignored")
		for p, id := range idx1 {
			if old, was := idx0[p]; was && old == id {
				continue
			}
			if ir.Ignored(p) == "yes" {
				sym := "ignored-path-staged"
				if _, was := idx0[p]; was {
					sym = "ignored-tracked-path-restaged"
				}
				w.Fail("C17.staged-ignored", sym, trig, "%s staged %q which .goitignore excludes (%s)", st.String(), p, ruleKinds(ir))
			}
		}
	case "status":
		if st.Exit != 0 || len(st.Argv) != 1 {
			return
		}
		idx0, ok0 := pre.Idx()
		if !ok0 {
			return
		}
		rep := ParseStatus(st.Stdout)
		c.Oracle("C17.status-lists")
		for p := range rep.Untracked {
			if InGoit(p) {
				w.Fail("C17.status-lists", "goit-path-listed", trig, "status lists %q", p)
			} else if _, tr := idx0[p]; !tr && ir.Ignored(p) == "yes" {
				w.Fail("C17.status-lists", "ignored-path-listed", trig, "status lists ignored %q (%s)", p, ruleKinds(ir))
			}
		}
		for p, lab := range rep.NotStaged {
			// an excluded path that still exists on disk is never listed in the working-tree report,
			// even if it was tracked before the rule was written
			if lab == "modified" && ir.Ignored(p) == "yes" {
				w.Fail("C17.status-lists", "ignored-tracked-path-listed", trig, "status lists %q as modified although .goitignore excludes it (%s)", p, ruleKinds(ir))
			}
		}
		c.Oracle("C17.hidden-without-ignore")
		if !ir.Present {
			for p := range st.Pre.WT() {
				if _, tr := idx0[p]; !tr && !rep.Untracked[p] {
					w.Fail("C17.hidden-without-ignore", "path-hidden", "no-ignore-file", "there is no .goitignore but status hides untracked %q", p)
				}
			}
		}
	case "restore", "reset":
		// Goit's own files must never be written back from a snapshot
		pa := ParseArgv(st.Argv)
		c.Oracle("C17.goit-overwritten")
		g0, g1 := st.Pre.GoitFiles(), st.Post.GoitFiles()
		for f, b := range g0 {
			allowed := false
			switch {
			case f == "index":
				_, stg := pa.Flag("--staged")
				allowed = st.Cmd() == "reset" || stg
			case strings.HasPrefix(f, "refs/heads/") || strings.HasPrefix(f, "logs/"):
				allowed = st.Cmd() == "reset"
			}
			if allowed {
				continue
			}
			nb, still := g1[f]
			if !still || !bytes.Equal(b, nb) {
				w.Fail("C17.goit-overwritten", "goit-file-changed", st.Cmd(), "%s changed Goit's own file .goit/%s", st.String(), f)
			}
		}
	}
}

func ruleKinds(ir IgnoreRules) string {
	var k []string
	if len(ir.Dirs) > 0 {
		k = append(k, "dir")
	}
	if len(ir.Exts) > 0 {
		k = append(k, "ext")
	}
	if len(ir.Exact) > 0 {
		k = append(k, "exact")
	}
	if len(k) == 0 {
		return "none"
	}
	return strings.Join(k, "+")
}

func runC17(c *core.Ctx) {
	n := c.Pick(500, 4000)
	c.RunHistories(n, Registry["C17"].Mons, func(w *core.World) {
		wts := map[string]int{
			"edit-new": 10, "edit-copy": 2, "edit-copydir": 1, "edit-mod": 8, "edit-rm": 2,
			"add": 18, "add-all": 14, "status": 12, "commit": 6, "rm": 2, "restore": 4, "reset": 5, "restore-staged": 2,
		}
		k := NewWalker(w, gen.NameOpts{Space: w.Hist%2 == 0, NonASCII: w.Hist%4 == 0, MaxDepth: 3, N: 5}, wts)
		k.Hostile = 12
		k.Escape = false
		k.Init()
		withIgnore := w.Hist%3 != 0
		if withIgnore {
			writeIgnoreScenario(k)
		} else {
			// no ignore file: near-miss names of Goit's own directory must not be hidden
			w.Write("x.goit/f", k.content())
			w.Write(".goitx/g", k.content())
			w.Write("a.goit", k.content())
			w.Write("sub/.goit2/h", k.content())
		}
		for i, p := range k.Pool {
			if i >= 4 {
				break
			}
			w.Write(p, k.content())
		}
		w.Goit("status")
		steps := c.Pick(30, 36)
		explicit := []string{".goit", ".goit/HEAD", ".goit/index", "./.goit/config", ".goit/objects", "build", "build/o1", "out", "node_modules", "tmp d", "a.ext", "a.log", "dir", "src/gen", "src", "src/gen/g.go"}
		if w.Hist%4 == 3 {
			// a file inside the metadata directory whose NAME holds a line feed (a pattern's "." does not match one by default)
			w.Write(".goit/x\ny", []byte("not for staging\n"))
			explicit = append(explicit, ".goit/x\ny", ".goit/x\ny", ".goit/x\ny")
		}
		for i := 0; i < steps; i++ {
			if k.chance(18) {
				a := explicit[k.R.IntN(len(explicit))]
				if k.chance(30) {
					// the same thing spelled as an absolute path / through a detour
					switch k.R.IntN(3) {
					case 0:
						a = w.SB.W() + "/" + a
					case 1:
						a = w.SB.W()
					default:
						a = "../w/" + a
					}
				}
				args := []string{"add", a}
				if k.chance(30) {
					args = append(args, ".")
				}
				k.goit(args...)
			} else {
				k.Step()
			}
			if i == steps/2 {
				k.goit("add", ".")
				k.goit("commit", "-m", k.message())
				if w.Hist%4 == 1 {
					// rules written AFTER the paths were tracked: excluded paths must still never be re-staged or listed
					tr := k.tracked()
					var lines []string
					if p, ok := k.pick(tr); ok {
						if i := strings.LastIndex(p, "."); i > strings.LastIndex(p, "/")+1 {
							lines = append(lines, "*"+p[i:])
						} else if j := strings.Index(p, "/"); j > 0 {
							lines = append(lines, p[:j]+"/")
						}
					}
					if len(lines) > 0 {
						w.Write(".goitignore", []byte(strings.Join(lines, "\n")+"\n"))
						for _, p := range tr {
							if k.chance(60) {
								w.Write(p, k.content())
							}
						}
						k.goit("status")
					}
				}
				k.goit("add", ".")
				k.goit("status")
				if k.reflogLen() > 0 {
					k.goit("reset", "--hard", "HEAD@{0}")
				}
			}
		}
		k.goit("add", ".")
		k.goit("status")
	})
}

// ---------------------------------------------------------------------------------------
// C06 (CLI part) — canonical staging-area file, tracked paths addressable

type C06Mon struct{}

func (C06Mon) After(w *core.World, st *core.Step) {
	if st.Kind != "goit" || !st.Post.HasGoit() {
		return
	}
	c := w.C
	post := st.Post.Repo()
	if !post.IndexPresent {
		return
	}
	raw0 := st.Pre.GoitFiles()["index"]
	raw1 := st.Post.GoitFiles()["index"]
	if pa := ParseArgv(st.Argv); st.Cmd() == "ls-files" && st.Exit != 0 && st.Signal == "" && post.IndexErr == nil && len(pa.Pos) == 0 && pa.OnlyFlags("-s", "--staged") {
		// a staging-area file that decodes must be listed: a listing that fails makes every tracked path unaddressable
		c.Oracle("C06.lsfiles-eq-file")
		w.Fail("C06.lsfiles-eq-file", "listing-fails", "none", "%s exits %d (%s) although the index file decodes to %d entries", st.String(), st.Exit, clipS(firstLine(st.Stdout+st.Stderr), 160), len(post.Index.Entries))
	}
	if st.Cmd() == "ls-files" && st.Exit == 0 {
		c.Oracle("C06.lsfiles-eq-file")
		if post.IndexErr == nil {
			pa := ParseArgv(st.Argv)
			_, s1 := pa.Flag("-s", "--staged")
			var want []string
			for _, e := range post.Index.Entries {
				if s1 {
					want = append(want, e.ID+"    "+e.Path)
				} else {
					want = append(want, e.Path)
				}
			}
			got := strings.TrimSuffix(st.Stdout, "\n")
			if got != strings.Join(want, "\n") {
				w.Fail("C06.lsfiles-eq-file", "listing-differs", "none", "%s prints %q but the index file decodes to %q", st.String(), clipS(got, 200), clipS(strings.Join(want, "\n"), 200))
			}
		}
	}
	if pa := ParseArgv(st.Argv); st.Cmd() == "add" && st.Exit == 0 && st.Cwd == "" && len(pa.Pos) > 0 && len(pa.Flags) == 0 && post.IndexErr == nil {
		// the entries last written: `add` of plain files leaves exactly the former paths plus the named ones, each with
		// its complete path bytes
		wt := st.Pre.WT()
		pre, _ := idx(st.Pre)
		want := map[string]bool{}
		for p := range pre {
			want[p] = true
		}
		plain := true
		for p := range wt {
			if path.Base(p) == ".goitignore" {
				plain = false
			}
		}
		for _, q := range pa.Pos {
			q2, okc := CleanArg(q) // "./x", "d//x", "../w/x" name x
			if !okc || !gen.ValidPath(q2) || InGoit(q2) || st.Pre.Odd["w/"+q2] != "" {
				plain = false
				break
			}
			if _, isFile := wt[q2]; isFile {
				if !resolvesOnDisk(st.Pre, q) {
					plain = false // "file/" and friends: refused or staged, see C04
					break
				}
				want[q2] = true
			} else if IsDirOnDisk(st.Pre, q2) {
				for p := range wt {
					if Under(p, q2) && !InGoit(p) {
						if st.Pre.Odd["w/"+p] != "" {
							plain = false
						}
						want[p] = true
					}
				}
			} else {
				plain = false
				break
			}
		}
		if plain && conflictFree(SortedSet(want)) {
			c.Oracle("C06.entries-written")
			got := map[string]bool{}
			for _, e := range post.Index.Entries {
				got[e.Path] = true
			}
			if !sameStringSet(SortedSet(got), SortedSet(want)) {
				w.Fail("C06.entries-written", "tracked-set-differs", "add", "after %s the staging area holds %q, the entries written are %q", st.String(), clipList(SortedSet(got), 8), clipList(SortedSet(want), 8))
			}
		}
	}
	if pa := ParseArgv(st.Argv); st.Cmd() == "reset" && st.Exit == 0 && st.Cwd == "" && post.IndexErr == nil {
		if _, soft := pa.Flag("--soft"); !soft {
			// the entries last written by reset --mixed / --hard: the snapshot of the commit HEAD names now, path for path
			if snap, exists, err := headSnapshot(post); exists && err == nil && !HasConflict(snap) {
				c.Oracle("C06.entries-written")
				got := map[string]string{}
				for _, e := range post.Index.Entries {
					got[e.Path] = e.ID
				}
				if !EqualMaps(got, snap) {
					w.Fail("C06.entries-written", "reset-differs-from-snapshot", "reset", "after %s the staging area differs from the snapshot of %s: %s", st.String(), short(post.HeadCommit()), clipS(DiffMaps(snap, got), 300))
				}
			}
		}
	}
	if bytes.Equal(raw0, raw1) {
		return
	}
	c.Oracle("C06.file-canonical")
	trig := st.Cmd()
	if post.IndexErr != nil {
		w.Fail("C06.file-canonical", "index-undecodable", trig, "after %s: %v", st.String(), post.IndexErr)
		return
	}
	ents := post.Index.Entries
	for i := 1; i < len(ents); i++ {
		if ents[i-1].Path >= ents[i].Path {
			sym := "not-ascending"
			if ents[i-1].Path == ents[i].Path {
				sym = "duplicate-path"
			}
			w.Fail("C06.file-canonical", sym, trig, "after %s: entry %d %q is followed by %q", st.String(), i-1, ents[i-1].Path, ents[i].Path)
			break
		}
	}
	if post.Index.Version != 1 && post.Index.Version != 2 {
		w.Fail("C06.file-canonical", "version", trig, "index version %d", post.Index.Version)
	}
	c.Class(fmt.Sprintf("C06.file|%s|n%d", st.Cmd(), min(len(ents), 6)))
}

// addressable: for a tracked set P (inserted in random order) every tracked path and every
// tracked directory must be found by rm/restore/add and select exactly the paths beneath it;
// near-miss names must be refused.
func runC06CLI(c *core.Ctx) {
	sets := subsets(c06Universe, 3)
	r := newRand(c.Seed, 11)
	r.Shuffle(len(sets), func(i, j int) { sets[i], sets[j] = sets[j], sets[i] })
	n := c.Pick(400, 2500)
	if n > len(sets) {
		n = len(sets)
	}
	sets = sets[:n]
	mons := func() []core.Monitor { return []core.Monitor{C06Mon{}} }
	c.RunHistories(len(sets), mons, func(w *core.World) {
		P := append([]string{}, sets[w.Hist]...)
		// a few more random paths so that sets are larger than 3
		extra := gen.NameSet(w.Rng, gen.NameOpts{Space: true, Meta: true, MaxDepth: 3, N: 3})
		for _, e := range extra {
			if conflictFree(append(append([]string{}, P...), e)) && !contains(P, e) {
				P = append(P, e)
			}
		}
		if w.Hist%5 == 2 {
			// names that are not valid UTF-8 (legal on Linux), differing in one such byte only
			for _, e := range [][]string{{"caf\xe9.txt", "caf\xe8.txt"}, {"d\xff/x", "d\xfe/x"}, {"\xc3(", "\xc3\x28.txt", "\xef\xbf\xbd"}, {"a\x80", "a\x81/b\xed\xa0\x80"}}[(w.Hist/5)%4] {
				if conflictFree(append(append([]string{}, P...), e)) && !contains(P, e) {
					P = append(P, e)
				}
			}
		}
		wl := NewWalker(w, gen.NameOpts{}, nil)
		wl.Init()
		w.Rng.Shuffle(len(P), func(i, j int) { P[i], P[j] = P[j], P[i] })
		for _, p := range P {
			w.Write(p, []byte("v1 "+p+"\n"))
			w.Goit("add", p) // one by one, in shuffled order: exercises the sort
		}
		// the same paths once more, named through their directory, spelled plainly and through the parent directory
		for _, p := range P {
			if i := strings.Index(p, "/"); i > 0 && w.Rng.IntN(3) == 0 {
				w.Write(p, []byte("v2 "+p+"\n"))
				w.Goit("add", pickS(w.Rng, []string{p[:i], "../w/" + p[:i], "./" + p[:i] + "/", "../w/" + p}))
			}
		}
		w.Goit("ls-files", "-s")
		w.Goit("ls-files")
		w.Goit("commit", "-m", "base")
		// queries: tracked files, tracked directories, near misses
		qset := map[string]bool{}
		for _, p := range P {
			qset[p] = true
			parts := strings.Split(p, "/")
			for i := 1; i < len(parts); i++ {
				qset[strings.Join(parts[:i], "/")] = true
			}
			first := parts[0]
			if len(first) > 1 {
				qset[first[:len(first)-1]] = true
				qset[first[1:]] = true
			}
			for _, sep := range []string{"-", ".", "(", "+", " "} {
				if i := strings.Index(first, sep); i > 0 {
					qset[first[:i]] = true
				}
			}
		}
		qs := SortedSet(qset)
		w.Rng.Shuffle(len(qs), func(i, j int) { qs[i], qs[j] = qs[j], qs[i] })
		if len(qs) > 7 {
			qs = qs[:7]
		}
		base := w.State()
		for _, q := range qs {
			if !gen.ValidPath(q) {
				continue
			}
			w.SB.Restore(base)
			w.Invalidate()
			idx0, _ := idx(w.State())
			var want []string
			if _, ok := idx0[q]; ok {
				want = []string{q}
			} else {
				want = trackedBeneath(idx0, q)
			}
			op := []string{"rm", "restore", "add", "restore-staged"}[w.Rng.IntN(4)]
			c.Oracle("C06.cli-addressable")
			// the same name in another spelling ("./q", "q/" for a directory) names the same paths
			qArg := q
			if len(want) > 0 && w.Rng.IntN(3) == 0 {
				if _, isFile := idx0[q]; !isFile && w.Rng.IntN(2) == 0 {
					qArg = q + "/"
				} else {
					qArg = "./" + q
				}
			}
			rel := "tracked-file"
			if len(want) == 0 {
				rel = "near-miss"
			} else if _, ok := idx0[q]; !ok {
				rel = "tracked-dir"
			}
			c.Class(fmt.Sprintf("C06.cli|%s|%s|%s", op, rel, nameRelation(nil, idx0, q)))
			trig := rel
			switch op {
			case "rm":
				st := w.Goit("rm", qArg)
				idx1, _ := idx(st.Post)
				var gone []string
				for p := range idx0 {
					if _, still := idx1[p]; !still {
						gone = append(gone, p)
					}
				}
				sort.Strings(gone)
				if strings.Join(gone, "\x00") != strings.Join(want, "\x00") {
					w.Fail("C06.cli-addressable", "rm-selects-wrong-set", trig, "rm %q with tracked %v removed %v, should remove %v (exit %d)", q, gitfmt.SortedKeys(idx0), gone, want, st.Exit)
				}
			case "restore":
				// delete every tracked file first, then restore q: exactly the selection must reappear
				for p := range idx0 {
					w.Edit("rm", p, nil)
				}
				st := w.Goit("restore", qArg)
				var back []string
				wt1 := st.Post.WT()
				for p := range idx0 {
					if _, on := wt1[p]; on {
						back = append(back, p)
					}
				}
				sort.Strings(back)
				if strings.Join(back, "\x00") != strings.Join(want, "\x00") {
					w.Fail("C06.cli-addressable", "restore-selects-wrong-set", trig, "restore %q with tracked %v recreated %v, should recreate %v (exit %d)", q, gitfmt.SortedKeys(idx0), back, want, st.Exit)
				}
			case "restore-staged":
				// unstage every path (the base commit holds them all), then restore --staged q: exactly the selection is staged again
				all := gitfmt.SortedKeys(idx0)
				w.Goit(append([]string{"rm"}, all...)...)
				if m, _ := idx(w.State()); len(m) != 0 {
					break // rm did not empty the staging area: C04's concern
				}
				st := w.Goit("restore", "--staged", qArg)
				idx1, _ := idx(st.Post)
				var back []string
				for p, id := range idx1 {
					if idx0[p] == id {
						back = append(back, p)
					} else {
						back = append(back, p+" (with another id)")
					}
				}
				sort.Strings(back)
				if strings.Join(back, "\x00") != strings.Join(want, "\x00") {
					w.Fail("C06.cli-addressable", "restore-staged-selects-wrong-set", trig, "restore --staged %q with HEAD holding %v staged %v, should stage %v (exit %d: %s)", q, all, back, want, st.Exit, clipS(firstLine(st.Stdout+st.Stderr), 120))
				}
			case "add":
				// delete every tracked file, then add q: exactly the selection must be unstaged
				// (for a deleted directory a refusal without change is also accepted by C04)
				for p := range idx0 {
					if i := strings.Index(p, "/"); i > 0 {
						w.Edit("rmdir", p[:i], nil) // the directory itself must be gone, not merely empty
					} else {
						w.Edit("rm", p, nil)
					}
				}
				st := w.Goit("add", qArg)
				idx1, _ := idx(st.Post)
				var gone []string
				for p := range idx0 {
					if _, still := idx1[p]; !still {
						gone = append(gone, p)
					}
				}
				sort.Strings(gone)
				isDir := rel == "tracked-dir"
				okSel := strings.Join(gone, "\x00") == strings.Join(want, "\x00")
				if isDir && len(gone) == 0 && st.Exit != 0 {
					okSel = true
				}
				if !okSel {
					w.Fail("C06.cli-addressable", "add-selects-wrong-set", trig, "add %q (all files deleted) with tracked %v unstaged %v, should unstage %v (exit %d)", q, gitfmt.SortedKeys(idx0), gone, want, st.Exit)
				}
			}
		}
	})
}

// random histories of add/rm/restore/reset: every rewrite of .goit/index is decoded and checked
func runC06Histories(c *core.Ctx) {
	n := c.Pick(200, 2000)
	mons := func() []core.Monitor { return []core.Monitor{C06Mon{}} }
	c.RunHistories(n, mons, func(w *core.World) {
		w.Hist += 1_000_000
		wts := map[string]int{
			"edit-new": 10, "edit-copy": 2, "edit-copydir": 1, "edit-mod": 8, "edit-rm": 4, "edit-rmdir": 2,
			"add": 16, "add-all": 2, "rm": 8, "commit": 6, "commit-all": 3,
			"restore-staged": 8, "reset": 10, "restore": 2, "ls-files": 6, "switch-c": 1,
		}
		k := NewWalker(w, gen.NameOpts{Space: true, Meta: w.Hist%2 == 0, NonASCII: w.Hist%3 == 0, MaxDepth: 4, N: 7}, wts)
		k.Hostile = 4
		k.Init()
		for i, p := range k.Pool {
			if i >= 6 {
				break
			}
			w.Write(p, k.content())
		}
		k.Do("commit-all")
		w.Write(k.freshPath(), k.content())
		k.Do("commit-all")
		if w.Hist%8 == 6 {
			ps := k.DeepPaths()
			k.goit("add", "deep", "long")
			k.goit("ls-files")
			k.Do("commit")
			k.goit("rm", ps[0])
			k.goit("restore", "--staged", "deep")
			k.goit("reset", "--mixed", "HEAD@{0}")
			k.goit("ls-files", "-s")
			k.goit("rm", ps[2], ps[3])
			k.goit("restore", "--staged", "long")
		}
		if w.Hist%8 == 1 {
			// directories whose names hold '%' (a name is data, not a format): staged, committed, rebuilt from the tree
			for _, p := range []string{"100%/y z/f", "%s dir/%d.txt", "a%20b/%", "50%off/x/100%"} {
				w.Write(p, k.content())
			}
			k.goit("add", "100%", "%s dir", "a%20b", "50%off")
			k.Do("commit")
			k.goit("reset", "--mixed", "HEAD@{0}")
			k.goit("ls-files", "-s")
			k.goit("rm", "100%/y z/f")
			k.goit("reset", "--hard", "HEAD@{0}")
			k.goit("ls-files")
		}
		if w.Hist%8 == 3 {
			// scale: the staging-area file grows past 4 KiB (and past 8, 12 KiB), first in one step, then entry by entry
			names := k.Populate(110 + k.R.IntN(260))
			k.goit("add", ".")
			k.goit("ls-files", "-s")
			for i := 0; i < 6; i++ {
				w.Write(names[k.R.IntN(len(names))]+".more", k.content())
				k.goit("add", ".")
			}
			k.goit("ls-files", "-s")
			k.Do("commit")
		}
		steps := c.Pick(36, 40)
		for i := 0; i < steps; i++ {
			k.Step()
			if st := w.Steps[len(w.Steps)-1]; st.Cmd() == "reset" || st.Cmd() == "rm" {
				k.goit("ls-files", "-s")
			}
		}
	})
}

func init() {
	register(&Prop{ID: "C17", Level: "exploration",
		Rule:   "seeded histories over working trees with nested ignored directories and extensions, .goitignore files of 'name/' and '*.ext' lines, near-miss names (subname/, a.extra, x.goit/, .goitx/), two thirds with an ignore file; add forms: a file, a directory, '.', a parent of an ignored path, the ignored path itself, .goit, .goit/HEAD, repeated after commits (metadata grown); after every add: no staged path inside .goit or excluded by the rules and the staged set is exactly the expected one; status lists none of them and hides nothing without an ignore file; around restore/reset --hard Goit's own files are byte-identical; distinct = (argument form, rule kinds, metadata grown)",
		Mons:   func() []core.Monitor { return []core.Monitor{C17Mon{}} },
		Run:    runC17,
		Floors: []core.Floor{{Key: "C17.staged-goit", Min: 600}, {Key: "C17.status-lists", Min: 300}, {Key: "C17.goit-overwritten", Min: 100}},
	})
}
