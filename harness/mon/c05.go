package mon

import (
	"fmt"
	"sort"
	"strings"

	"verif/harness/core"
	"verif/harness/gen"
	"verif/harness/gitfmt"
)

type C05Mon struct{}

func stagedAt(w *core.World) map[string]map[string]string {
	m, _ := w.Shadow["stagedAt"].(map[string]map[string]string)
	if m == nil {
		m = map[string]map[string]string{}
		w.Shadow["stagedAt"] = m
	}
	return m
}

func (C05Mon) After(w *core.World, st *core.Step) {
	if st.Kind != "goit" || !st.Pre.HasGoit() {
		return
	}
	c := w.C
	observeReflog(w, st)
	switch st.Cmd() {
	case "commit":
		if st.Exit != 0 {
			return
		}
		pre, post := st.Pre.Repo(), st.Post.Repo()
		idx0, ok := pre.Idx()
		X := post.Branches[pre.HeadBranch]
		if ok && gitfmt.IsHex40(X) && X != pre.Branches[pre.HeadBranch] && !HasConflict(idx0) {
			stagedAt(w)[X] = CopyMap(idx0)
		}
	case "ls-files":
		// right after `reset --mixed HEAD@{n}`: the driver tags the expected commit
		cid := st.Intent["c05.readback"]
		if cid == "" || st.Exit != 0 {
			return
		}
		want := stagedAt(w)[cid]
		if want == nil {
			return
		}
		got, _, err := ParseLsFilesS(st.Stdout)
		trig := c05Trigger(want)
		c.Oracle("C05.reset-readback")
		c.Class("C05.readback|" + nameShape(want) + "|" + trig)
		if err != nil {
			w.Fail("C05.reset-readback", "listing-unparsable", trig, "%v", err)
			return
		}
		if !EqualMaps(want, got) {
			w.Fail("C05.reset-readback", c05Symptom(want, got), trig, "after reset --mixed to %s, ls-files -s differs from what was staged when it was made: %s", short(cid), DiffMaps(want, got))
		}
		if snap, err := st.Pre.Repo().SnapOf(cid); err == nil && !EqualMaps(snap, got) {
			w.Fail("C05.reset-readback", "differs-from-independent-decode", trig, "ls-files -s after reset to %s differs from the independent decode of its tree: %s", short(cid), DiffMaps(snap, got))
		}
		if len(want) == 0 {
			c.Oracle("C05.empty-snapshot")
		}
	case "cat-file":
		pa := ParseArgv(st.Argv)
		if _, p := pa.Flag("-p"); !p || len(pa.Pos) != 1 {
			return
		}
		o, ok := st.Pre.Repo().Obj(pa.Pos[0])
		if !ok || o.Kind != "tree" {
			return
		}
		ents, err := gitfmt.ParseTree(o.Body)
		if err != nil {
			return
		}
		c.Oracle("C05.catfile-children")
		var want []string
		names := map[string]string{}
		for _, e := range ents {
			kind, mode := "blob", "100644"
			if e.IsDir() {
				kind, mode = "tree", "040000"
			}
			want = append(want, fmt.Sprintf("%s %s %s\t%s", mode, kind, e.ID, e.Name))
			names[e.Name] = e.ID
		}
		trig := c05Trigger(names)
		if len(ents) == 0 {
			trig = "empty-tree"
			c.Oracle("C05.empty-snapshot")
		}
		if st.Exit != 0 {
			w.Fail("C05.catfile-children", "cat-file-fails", trig, "cat-file -p of tree %s (children %q) exits %d: %s", short(pa.Pos[0]), gitfmt.SortedKeys(names), st.Exit, clipS(firstLine(st.Stdout+st.Stderr), 160))
			return
		}
		var got []string
		for _, ln := range strings.Split(strings.TrimSuffix(st.Stdout, "\n"), "\n") {
			if ln != "" {
				got = append(got, ln)
			}
		}
		sort.Strings(want)
		sort.Strings(got)
		if strings.Join(want, "\n") != strings.Join(got, "\n") {
			sym := "children-differ"
			if len(got) == len(want) {
				for i := range got {
					if got[i] != want[i] && strings.HasPrefix(want[i], got[i]) {
						sym = "name-truncated"
					}
				}
			}
			w.Fail("C05.catfile-children", sym, trig, "cat-file -p of tree %s prints %q, independent decode gives %q", short(pa.Pos[0]), firstN(got, 4), firstN(want, 4))
		}
	}
}

func c05Trigger(m map[string]string) string {
	var t []string
	for p := range m {
		if strings.Contains(p, " ") {
			t = append(t, "name-has-space")
			break
		}
	}
	if sibRelation(m) {
		t = append(t, "sibling-suffix")
	}
	if len(m) == 0 {
		t = append(t, "empty-snapshot")
	}
	if len(t) == 0 {
		return "none"
	}
	return strings.Join(t, "+")
}

func c05Symptom(want, got map[string]string) string {
	for p := range want {
		if _, ok := got[p]; !ok {
			if i := strings.Index(p, " "); i > 0 {
				if _, tr := got[p[:i]]; tr {
					return "name-truncated-at-space"
				}
			}
		}
	}
	return "readback-differs"
}

// readBackAll resets --mixed to every reflog position that names a commit made in this
// history and asks for ls-files -s, then cat-file -p of every tree of that commit.
func (k *Walker) readBackAll(maxPos int) {
	w := k.W
	st := k.goit("reflog")
	es, _ := ParseReflog(st.Stdout)
	if st.Exit != 0 || len(es) == 0 {
		return
	}
	sa := stagedAt(w)
	r := w.State().Repo()
	done := map[string]bool{}
	// positions change with every reset (each adds an entry): recompute from a fixed list of commits
	var commits []string
	for _, e := range es {
		if id, _ := resolvePrefix(r, e.Prefix); id != "" && sa[id] != nil && !done[id] {
			done[id] = true
			commits = append(commits, id)
		}
	}
	if len(commits) > maxPos {
		k.R.Shuffle(len(commits), func(i, j int) { commits[i], commits[j] = commits[j], commits[i] })
		commits = commits[:maxPos]
	}
	for _, cid := range commits {
		st := k.goit("reflog")
		es, _ := ParseReflog(st.Stdout)
		pos := -1
		for _, e := range es {
			if strings.HasPrefix(cid, e.Prefix) {
				pos = e.N
				break
			}
		}
		if pos < 0 {
			continue
		}
		// make the staging area differ from HEAD first (a reset must not rely on it being clean)
		if k.chance(60) {
			k.W.Write(k.freshPath(), k.content())
			k.Do("add")
			if k.chance(40) {
				k.Do("rm")
			}
			// positions shift only with journal entries; add/rm write none
		}
		rs := k.goit("reset", "--mixed", fmt.Sprintf("HEAD@{%d}", pos))
		if rs.Exit != 0 {
			w.C.Oracle("C05.reset-readback")
			w.Fail("C05.reset-readback", "reset-fails", c05Trigger(sa[cid]), "reset --mixed HEAD@{%d} (commit %s, staged set %q) exits %d: %s", pos, short(cid), gitfmt.SortedKeys(sa[cid]), rs.Exit, clipS(firstLine(rs.Stdout+rs.Stderr), 160))
			continue
		}
		w.Tag = map[string]string{"c05.readback": cid}
		k.W.Goit("ls-files", "-s")
		// every tree of that commit
		rr := w.State().Repo()
		if cm, err := rr.Commit(cid); err == nil {
			var trees []string
			var walk func(id string, depth int)
			walk = func(id string, depth int) {
				trees = append(trees, id)
				if o, ok := rr.Obj(id); ok && o.Kind == "tree" && depth < 8 {
					if ents, err := gitfmt.ParseTree(o.Body); err == nil {
						for _, e := range ents {
							if e.IsDir() {
								walk(e.ID, depth+1)
							}
						}
					}
				}
			}
			walk(cm.Tree, 0)
			for _, t := range trees {
				k.goit("cat-file", "-p", t)
			}
		}
	}
}

func runC05(c *core.Ctx) {
	RunIn(c, "", 16, 2048)
	n := c.Pick(400, 3000)
	c.RunHistories(n, Registry["C05"].Mons, func(w *core.World) {
		wts := map[string]int{
			"edit-new": 12, "edit-copy": 2, "edit-copydir": 1, "edit-mod": 8, "edit-rm": 3, "add": 14, "rm": 5, "commit": 10, "commit-all": 6,
			"restore-staged": 2, "switch-c": 1,
		}
		k := NewWalker(w, gen.NameOpts{Space: true, NonASCII: w.Hist%3 == 0, MaxDepth: 4, N: 5 + w.Hist%6}, wts)
		k.Hostile = 2
		k.Init()
		for i, p := range k.Pool {
			if i >= 5 {
				break
			}
			w.Write(p, k.content())
		}
		if w.Hist%10 == 3 {
			// one directory with well over 100 entries (its tree object is larger than 4 KiB),
			// entry names of varying length so that buffer edges fall at different places
			n := 110 + w.Rng.IntN(60)
			for i := 0; i < n; i++ {
				name := fmt.Sprintf("big/f%03d%s", i, strings.Repeat("x", (i*7+w.Hist)%23))
				w.Write(name, []byte(fmt.Sprintf("%d\n", i%5)))
			}
			k.goit("add", "big")
		}
		k.MsgClass = w.Hist%2 == 1
		megaHist := false
		if idTwins(); twinTs && w.Hist%12 == 7 {
			// two directories of one snapshot whose TREE ids share their first 32 bits
			w.Write("twa/f", twinTreeA)
			w.Write("twb/f", twinTreeB)
			w.Write("nest/twa/f", twinTreeA)
			w.Write("nest/other/twb/f", twinTreeB)
			k.goit("add", "twa", "twb", "nest")
			c.Count("C05.histories-with-tree-id-twins")
		}
		if w.Hist%24 == 17 {
			k.DeepPaths()
			k.goit("add", "deep", "long")
		}
		if w.Hist == 10 || (c.Thorough() && w.Hist%700 == 10) {
			// one tree object beyond 1 MiB (4300 children with 240-byte names) that has sub-directories sorting first,
			// in the middle and last: reading the children back means reading other trees while this one is open
			var mega []string
			for i := 0; i < 4300; i++ {
				mega = append(mega, fmt.Sprintf("mega/%s%04d", strings.Repeat("n", 236), i))
			}
			mega = append(mega, "mega/0first/x", "mega/0first/deeper/y", "mega/nmid/"+strings.Repeat("m", 200), "mega/zz last/z")
			w.EditMany(mega, 3)
			k.goit("add", "mega")
			c.Count("C05.histories-with-a-tree-beyond-1MiB")
			megaHist = true
		}
		if w.Hist%24 == 13 {
			k.BoundaryFiles("blk/")
			k.goit("add", "blk")
		}
		if w.Hist%6 == 5 {
			// directories whose names are Goit's own directory name plus dots or blanks, or in another letter case
			for _, p := range []string{".goit./c.txt", "lib/.goit./d.txt", ".goit /e.txt", ".GOIT/f.txt", ".goit.d/g.txt", "lib/.goit/h.txt"} {
				w.Write(p, k.content())
			}
			k.goit("add", ".goit.", "lib", ".goit ", ".GOIT", ".goit.d")
		}
		if w.Hist%4 == 2 {
			// names that end or begin with white space (a blank, U+3000, U+00A0), as the only / the last child of a tree:
			// what is listed must be the complete name
			for _, p := range []string{"only/a ", "wide/\u3000x\u3000", "nb/y\u00a0", "~z ", " lead", "sp /in dir ", "only2/ b"} {
				if k.chance(70) {
					w.Write(p, k.content())
					k.goit("add", p)
				}
			}
		}
		k.Do("commit-all")
		steps := c.Pick(22, 28)
		if megaHist {
			steps = 5 // every step snapshots and decodes the big tree
		}
		for i := 0; i < steps; i++ {
			k.Step()
			if i == steps/2 && w.Hist%3 == 0 {
				// the empty snapshot: remove everything, commit
				if tr := k.tracked(); len(tr) > 0 {
					k.goit(append([]string{"rm"}, tr...)...)
					k.goit("commit", "-m", "emptied")
				}
			}
		}
		k.Do("commit-all")
		k.readBackAll(c.Pick(5, 8))
	})
}

func init() {
	register(&Prop{ID: "C05", Level: "exploration", NeedIn: true,
		Rule:   "(a) CLI: seeded histories over name sets of depth 1-4 (letters, digits, space, - . + _ ( non-ASCII, sibling-suffix families), incl. the commit made after all files were removed; the monitor records the staged set at every commit; at the end, for up to 5-8 commits: reflog -> reset --mixed HEAD@{n} -> ls-files -s must equal the recorded set and the independent decode; cat-file -p of every tree of that commit must list exactly the independently decoded children (kind, id, complete name); (b) in-process+CLI: indexes built through the real Index.Update with chosen 20-byte ids (0x00, 0x20, 0x0a at every position, all-zero, random), real `goit write-tree`, read back through GetObject+NewTree; distinct = (name-shape class, special-byte position class)",
		Mons:   func() []core.Monitor { return []core.Monitor{C05Mon{}} },
		Run:    runC05,
		Floors: []core.Floor{{Key: "C05.reset-readback", Min: 200}, {Key: "C05.catfile-children", Min: 300}, {Key: "C05.newtree-ids", Min: 1000}, {Key: "C05.empty-snapshot", Min: 10}},
	})
}
