// Package core: run context, histories ("worlds"), steps, failures, known findings, evidence, witnesses.
package core

import (
	"encoding/base64"
	"encoding/binary"
	"encoding/json"
	"fmt"
	"hash/fnv"
	"math/rand/v2"
	"os"
	"path/filepath"
	"runtime"
	"sort"
	"strings"
	"sync"
	"time"
	"unicode/utf8"

	"verif/harness/sandbox"
)

// ---------------------------------------------------------------------------------------
// Steps

type Edit struct {
	Op   string `json:"op"` // write | rm | rmdir | mkdir | touch
	Path string `json:"path"`
	Data []byte `json:"-"`
	B64  string `json:"bytes_b64,omitempty"`
	// set in a witness when Path is not valid UTF-8 (JSON strings cannot carry such bytes)
	PathB64 string `json:"path_b64,omitempty"`
	MTime   int64  `json:"mtime,omitempty"`
}

type Step struct {
	Seq  int      `json:"seq"`
	Kind string   `json:"kind"` // goit | edit
	Argv []string `json:"argv,omitempty"`
	// set in a witness when some argument is not valid UTF-8: the exact bytes of every argument
	ArgvB64 []string          `json:"argv_b64,omitempty"`
	TZ      string            `json:"tz,omitempty"`
	Cwd     string            `json:"cwd,omitempty"` // relative to the working tree; "" = the repository root
	Env     map[string]string `json:"env,omitempty"`
	Edit    *Edit             `json:"edit,omitempty"`
	Intent  map[string]string `json:"gen,omitempty"`

	Pre  *sandbox.Snap   `json:"-"`
	Post *sandbox.Snap   `json:"-"`
	Res  *sandbox.Result `json:"-"`

	Exit   int    `json:"exit"`
	Signal string `json:"signal,omitempty"`
	Stdout string `json:"stdout,omitempty"`
	Stderr string `json:"stderr,omitempty"`
}

func (s *Step) Cmd() string {
	if s.Kind != "goit" || len(s.Argv) == 0 {
		return ""
	}
	return s.Argv[0]
}

func (s *Step) String() string {
	if s.Kind == "edit" {
		if s.Edit.Op == "write" {
			return fmt.Sprintf("edit %s %q (%d bytes)", s.Edit.Op, s.Edit.Path, len(s.Edit.Data))
		}
		switch s.Edit.Op {
		case "many":
			return fmt.Sprintf("edit many: %d files, generation %d (first: %q)", strings.Count(string(s.Edit.Data), "\n")+1, s.Edit.MTime, strings.SplitN(string(s.Edit.Data), "\n", 2)[0])
		case "rand":
			return fmt.Sprintf("edit rand %q (%d pseudo-random bytes, seed %q)", s.Edit.Path, s.Edit.MTime, s.Edit.Data)
		case "symlink":
			return fmt.Sprintf("edit symlink %q -> %q", s.Edit.Path, s.Edit.Data)
		case "hardlink":
			return fmt.Sprintf("edit hardlink %q = %q", s.Edit.Path, s.Edit.Data)
		case "chmod":
			return fmt.Sprintf("edit chmod %o %q", s.Edit.MTime, s.Edit.Path)
		}
		return fmt.Sprintf("edit %s %q", s.Edit.Op, s.Edit.Path)
	}
	q := make([]string, len(s.Argv))
	for i, a := range s.Argv {
		q[i] = fmt.Sprintf("%q", a)
	}
	tz := ""
	if s.TZ != "" && s.TZ != "UTC" {
		tz = " [TZ=" + filepath.Base(s.TZ) + "]"
	}
	if s.Cwd != "" {
		tz += " [cwd=" + s.Cwd + "]"
	}
	return fmt.Sprintf("goit %s%s -> exit %d", strings.Join(q, " "), tz, s.Exit)
}

// ---------------------------------------------------------------------------------------
// Failures and known findings

type Failure struct {
	Prop    string `json:"property"`
	Oracle  string `json:"oracle"`
	Symptom string `json:"symptom"`
	Trigger string `json:"trigger"`
	Detail  string `json:"detail"`
	Hist    int    `json:"hist"`
	Seq     int    `json:"seq"`
}

func (f Failure) Signature() string { return f.Oracle + "|" + f.Symptom + "|" + f.Trigger }

type Known struct {
	Status    string `json:"status"` // open | fixed
	Property  string `json:"property"`
	Signature string `json:"signature,omitempty"`
	Commit    string `json:"commit,omitempty"`
	What      string `json:"what"`
}

type KnownFile struct {
	Findings []Known `json:"findings"`
}

func LoadKnown(path string) ([]Known, error) {
	b, err := os.ReadFile(path)
	if err != nil {
		return nil, err
	}
	var kf KnownFile
	if err := json.Unmarshal(b, &kf); err != nil {
		return nil, err
	}
	return kf.Findings, nil
}

// ---------------------------------------------------------------------------------------
// Run context

type Ctx struct {
	Prop      string
	Tier      string
	Seed      int64
	forceDeep int
	Level     string
	Goit      string // binary built from the current tree (tag verif)
	GoitVFS   string // binary of the vfs-rewritten scratch copy (C15/C16), may be ""
	GoitIn    string // in-process monitor binary, may be ""
	GoitRace  string // -race build (tripwire), may be ""
	Scratch   string
	VerifDir  string
	Workers   int
	Start     time.Time

	mu           sync.Mutex
	oracles      map[string]int64
	counts       map[string]int64
	classes      map[string]int64
	failures     []Failure
	witnessed    int
	samples      []any
	known        []Known
	knownHit     map[string]int
	inconclusive int64
	evaluations  int64
	notes        []string
	Rule         string
	Assume       []string
	Extra        map[string]any
	replayPaths  []string
	broken       []string
	NoShrink     bool
	shrunk       int
	shrinkRuns   int
}

func NewCtx(prop, tier string, seed int64) *Ctx {
	return &Ctx{Prop: prop, Tier: tier, Seed: seed, Workers: runtime.NumCPU(), Start: time.Now(),
		oracles: map[string]int64{}, counts: map[string]int64{}, classes: map[string]int64{},
		knownHit: map[string]int{}, Extra: map[string]any{}}
}

func (c *Ctx) SetKnown(k []Known) { c.known = k }

func (c *Ctx) Thorough() bool { return c.Tier == "thorough" }

// Pick returns q for quick and t for thorough.
func (c *Ctx) Pick(q, t int) int {
	if c.Thorough() {
		return t
	}
	return q
}

func (c *Ctx) Oracle(id string)           { c.mu.Lock(); c.oracles[id]++; c.mu.Unlock() }
func (c *Ctx) OracleN(id string, n int64) { c.mu.Lock(); c.oracles[id] += n; c.mu.Unlock() }
func (c *Ctx) Count(k string)             { c.mu.Lock(); c.counts[k]++; c.mu.Unlock() }
func (c *Ctx) CountN(k string, n int64)   { c.mu.Lock(); c.counts[k] += n; c.mu.Unlock() }
func (c *Ctx) Class(k string)             { c.mu.Lock(); c.classes[k]++; c.mu.Unlock() }
func (c *Ctx) Eval(n int64)               { c.mu.Lock(); c.evaluations += n; c.mu.Unlock() }
func (c *Ctx) Inconclusive(why string) {
	c.mu.Lock()
	c.inconclusive++
	if len(c.notes) < 20 {
		c.notes = append(c.notes, "inconclusive: "+why)
	}
	c.mu.Unlock()
}
func (c *Ctx) Broken(why string) { c.mu.Lock(); c.broken = append(c.broken, why); c.mu.Unlock() }
func (c *Ctx) Note(s string) {
	c.mu.Lock()
	if len(c.notes) < 50 {
		c.notes = append(c.notes, s)
	}
	c.mu.Unlock()
}
func (c *Ctx) Sample(s any) {
	c.mu.Lock()
	if len(c.samples) < 5 {
		c.samples = append(c.samples, s)
	}
	c.mu.Unlock()
}
func (c *Ctx) NumClasses() int         { c.mu.Lock(); defer c.mu.Unlock(); return len(c.classes) }
func (c *Ctx) GetCount(k string) int64 { c.mu.Lock(); defer c.mu.Unlock(); return c.counts[k] }

func (c *Ctx) isKnown(f Failure) (Known, bool) {
	for _, k := range c.known {
		if k.Status == "open" && k.Property == f.Prop && k.Signature == f.Signature() {
			return k, true
		}
	}
	return Known{}, false
}

// Fail records an oracle failure. It returns true if it is a (new) violation, false if it
// matches an open known finding.
func (c *Ctx) Fail(f Failure) bool {
	if f.Prop == "" {
		f.Prop = c.Prop
	}
	c.mu.Lock()
	defer c.mu.Unlock()
	if k, ok := c.isKnown(f); ok {
		c.knownHit[k.What]++
		return false
	}
	c.failures = append(c.failures, f)
	return true
}

func (c *Ctx) Violations() int { c.mu.Lock(); defer c.mu.Unlock(); return len(c.failures) }

// WantWitness says whether another witness file should be written (bounded per run).
func (c *Ctx) WantWitness() (int, bool) {
	c.mu.Lock()
	defer c.mu.Unlock()
	if c.witnessed >= 8 {
		return 0, false
	}
	c.witnessed++
	return c.witnessed, true
}

func (c *Ctx) AddReplay(p string) {
	c.mu.Lock()
	c.replayPaths = append(c.replayPaths, p)
	c.mu.Unlock()
}

// ---------------------------------------------------------------------------------------
// Witness

type Witness struct {
	Prop     string          `json:"property"`
	Tier     string          `json:"tier"`
	Seed     int64           `json:"seed"`
	Kind     string          `json:"kind"` // history | custom
	Hist     int             `json:"hist"`
	Steps    []*Step         `json:"steps,omitempty"`
	Failures []Failure       `json:"failures"`
	Custom   json.RawMessage `json:"custom,omitempty"`
	GoitRev  string          `json:"goit_rev,omitempty"`
	Note     string          `json:"note,omitempty"`
}

func (c *Ctx) WriteWitness(w *Witness) string {
	n, ok := c.WantWitness()
	if !ok {
		return ""
	}
	return c.writeWitnessSlot(w, n)
}

func (c *Ctx) writeWitnessSlot(w *Witness, n int) string {
	w.Prop, w.Tier, w.Seed = c.Prop, c.Tier, c.Seed
	// witnesses carry clipped copies of the output streams
	cp := make([]*Step, len(w.Steps))
	for i, s := range w.Steps {
		d := *s
		d.Stdout, d.Stderr = clip([]byte(s.Stdout)), clip([]byte(s.Stderr))
		cp[i] = &d
	}
	w.Steps = cp
	for _, s := range w.Steps {
		if s.Edit != nil && s.Edit.Data != nil {
			s.Edit.B64 = base64.StdEncoding.EncodeToString(s.Edit.Data)
		}
		if s.Edit != nil && !utf8.ValidString(s.Edit.Path) {
			s.Edit.PathB64 = base64.StdEncoding.EncodeToString([]byte(s.Edit.Path))
		}
		for _, a := range s.Argv {
			if !utf8.ValidString(a) {
				s.ArgvB64 = nil
				for _, a := range s.Argv {
					s.ArgvB64 = append(s.ArgvB64, base64.StdEncoding.EncodeToString([]byte(a)))
				}
				break
			}
		}
	}
	dir := filepath.Join(c.VerifDir, "replay")
	os.MkdirAll(dir, 0o777)
	p := filepath.Join(dir, fmt.Sprintf("%s-s%d-%s-%d.json", c.Prop, c.Seed, c.Tier, n))
	b, _ := json.MarshalIndent(w, "", " ")
	os.WriteFile(p, b, 0o666)
	c.AddReplay(p)
	return p
}

func LoadWitness(path string) (*Witness, error) {
	b, err := os.ReadFile(path)
	if err != nil {
		return nil, err
	}
	var w Witness
	if err := json.Unmarshal(b, &w); err != nil {
		return nil, err
	}
	for _, s := range w.Steps {
		if s.Edit != nil && s.Edit.B64 != "" {
			s.Edit.Data, _ = base64.StdEncoding.DecodeString(s.Edit.B64)
		}
		if s.Edit != nil && s.Edit.Op == "write" && s.Edit.Data == nil {
			s.Edit.Data = []byte{}
		}
		if s.Edit != nil && s.Edit.PathB64 != "" {
			if b, err := base64.StdEncoding.DecodeString(s.Edit.PathB64); err == nil {
				s.Edit.Path = string(b)
			}
		}
		if len(s.ArgvB64) == len(s.Argv) {
			for i, a := range s.ArgvB64 {
				if b, err := base64.StdEncoding.DecodeString(a); err == nil {
					s.Argv[i] = string(b)
				}
			}
		}
	}
	return &w, nil
}

// ---------------------------------------------------------------------------------------
// World: one history in one sandbox, driven by one goroutine

type Monitor interface {
	// After is called after every step (goit or edit) with Pre/Post/Res filled in.
	After(w *World, st *Step)
}

type World struct {
	C       *Ctx
	Hist    int
	deep    int // length of the working tree's absolute path if the sandbox is a deep one (0 otherwise)
	SB      *sandbox.Sandbox
	Rng     *rand.Rand
	Steps   []*Step
	Mons    []Monitor
	TZ      string
	Env     map[string]string
	GoitBin string
	Shadow  map[string]any // monitor-private shadow state
	failed  []Failure
	last    *sandbox.Snap
	Tag     map[string]string // intent for next step
	nextCwd string
}

func (c *Ctx) NewWorld(hist int, mons []Monitor) (*World, error) {
	// where the repository lives is part of the input: one sandbox in seven sits in a directory whose name has
	// blanks, glob and regexp metacharacters, '%' and a non-ASCII letter
	name := fmt.Sprintf("h%d", hist)
	if hist%7 == 5 {
		name = fmt.Sprintf("h%d proj[1] (copy) *?+%%s \u00e9", hist)
	}
	var sb *sandbox.Sandbox
	var err error
	l := DeepLen(hist)
	if c.forceDeep > 0 {
		l = c.forceDeep
	}
	if l > 0 {
		// where the repository lives is part of the input (2): a working tree whose absolute path is l bytes long
		sb, err = sandbox.NewDeep(filepath.Join(c.Scratch, "sb"), name, l)
	} else {
		sb, err = sandbox.New(filepath.Join(c.Scratch, "sb"), name)
	}
	if err != nil {
		return nil, err
	}
	w := &World{C: c, Hist: hist, SB: sb, Mons: mons, Shadow: map[string]any{}, GoitBin: c.Goit, deep: l,
		Rng: rand.New(rand.NewPCG(uint64(c.Seed), uint64(hist)*2654435761+17))}
	return w, nil
}

// DeepBase: histories numbered DeepBase+i live in a working tree whose absolute path is 4030+i%66 bytes long
// (4030..4095): the files Goit keeps beneath it cross PATH_MAX one after the other (an object at 4040, the
// temporary files around 4070, .goit itself at 4090).
const DeepBase = 30_000_000

func DeepLen(hist int) int {
	if hist >= DeepBase && hist < DeepBase+1_000_000 {
		return 4030 + (hist-DeepBase)%66
	}
	return 0
}

func (w *World) Close() { w.SB.Destroy() }

func (w *World) cur() *sandbox.Snap {
	if w.last == nil {
		w.last = w.SB.Snapshot()
	}
	return w.last
}

// State returns the current snapshot of the sandbox.
func (w *World) State() *sandbox.Snap { return w.cur() }

// Invalidate forces a re-snapshot (after out-of-band changes such as Restore).
func (w *World) Invalidate() { w.last = nil }

func (w *World) intent() map[string]string {
	t := w.Tag
	w.Tag = nil
	return t
}

// GoitIn runs one goit command with the given working directory (relative to the working tree).
func (w *World) GoitIn(cwd string, argv ...string) *Step {
	w.nextCwd = cwd
	return w.Goit(argv...)
}

// Goit runs one goit command as a monitored step.
func (w *World) Goit(argv ...string) *Step {
	st := &Step{Seq: len(w.Steps), Kind: "goit", Argv: append([]string{}, argv...), TZ: w.TZ, Intent: w.intent(), Cwd: w.nextCwd}
	w.nextCwd = ""
	if len(w.Env) > 0 {
		st.Env = map[string]string{}
		for k, v := range w.Env {
			st.Env[k] = v
		}
	}
	w.exec(st)
	return st
}

func (w *World) exec(st *Step) {
	st.Pre = w.cur()
	w.Steps = append(w.Steps, st)
	if st.Kind == "goit" {
		ro := sandbox.RunOpts{TZ: st.TZ, ExtraEnv: st.Env}
		if st.Cwd != "" {
			ro.Dir = filepath.Join(w.SB.W(), st.Cwd)
		}
		st.Res = w.SB.Run(w.GoitBin, st.Argv, ro)
		st.Exit, st.Signal = st.Res.Exit, st.Res.Signal
		st.Stdout, st.Stderr = string(st.Res.Stdout), string(st.Res.Stderr)
		w.C.Eval(1)
		w.C.Count("cmd:" + st.Cmd())
	} else {
		applyEdit(w.SB, st.Edit)
		w.C.Count("edit:" + st.Edit.Op)
	}
	st.Post = w.SB.Snapshot()
	w.last = st.Post
	for _, m := range w.Mons {
		m.After(w, st)
	}
}

func clip(b []byte) string {
	if len(b) > 4096 {
		return string(b[:4096]) + "…[clipped]"
	}
	return string(b)
}

func applyEdit(sb *sandbox.Sandbox, e *Edit) {
	p := filepath.Join(sb.W(), e.Path)
	switch e.Op {
	case "write":
		os.MkdirAll(filepath.Dir(p), 0o777)
		os.WriteFile(p, e.Data, 0o666)
	case "rm":
		os.Remove(p)
	case "rmdir":
		os.RemoveAll(p)
	case "mkdir":
		os.MkdirAll(p, 0o777)
	case "touch":
		t := time.Unix(e.MTime, 0)
		os.Chtimes(p, t, t)
	case "chmod": // MTime = permission bits plus 0o4000 setuid, 0o2000 setgid, 0o1000 sticky
		m := os.FileMode(e.MTime & 0o777)
		if e.MTime&0o4000 != 0 {
			m |= os.ModeSetuid
		}
		if e.MTime&0o2000 != 0 {
			m |= os.ModeSetgid
		}
		if e.MTime&0o1000 != 0 {
			m |= os.ModeSticky
		}
		os.Chmod(p, m)
	case "symlink": // Data = target (may dangle)
		os.MkdirAll(filepath.Dir(p), 0o777)
		os.Remove(p)
		os.Symlink(string(e.Data), p)
	case "hardlink": // Data = path (relative to the working tree) of the existing file this becomes another name of
		os.MkdirAll(filepath.Dir(p), 0o777)
		os.Remove(p)
		os.Link(filepath.Join(sb.W(), string(e.Data)), p)
	case "rand": // MTime bytes of a generator seeded by Data: big files without big witnesses
		os.MkdirAll(filepath.Dir(p), 0o777)
		os.WriteFile(p, RandBytes(string(e.Data), e.MTime), 0o666)
	case "many": // Data = newline-separated paths below Path; each file holds "<path> <MTime>\n"
		for _, q := range strings.Split(string(e.Data), "\n") {
			if q == "" {
				continue
			}
			f := filepath.Join(p, q)
			os.MkdirAll(filepath.Dir(f), 0o777)
			os.WriteFile(f, []byte(fmt.Sprintf("%s %d\n", q, e.MTime)), 0o666)
		}
	}
}

// RandBytes: n pseudo-random (incompressible) bytes determined by seed; a prefix-stable stream, so that the bytes for
// n and n+1 differ only in the last byte.
func RandBytes(seed string, n int64) []byte {
	h := fnv.New64a()
	h.Write([]byte(seed))
	r := rand.New(rand.NewPCG(h.Sum64(), 7))
	b := make([]byte, (n+7)/8*8)
	for i := 0; i+8 <= len(b); i += 8 {
		binary.LittleEndian.PutUint64(b[i:], r.Uint64())
	}
	return b[:n]
}

// EditMany writes many small files in one monitored step (gen is the number put into every file).
func (w *World) EditMany(paths []string, gen int64) *Step {
	e := &Edit{Op: "many", Path: ".", Data: []byte(strings.Join(paths, "\n")), MTime: gen}
	st := &Step{Seq: len(w.Steps), Kind: "edit", Edit: e, Intent: w.intent()}
	w.exec(st)
	return st
}

// Chmod changes the mode bits of a working file (content and times stay).
func (w *World) Chmod(path string, mode int64) *Step {
	e := &Edit{Op: "chmod", Path: path, MTime: mode}
	st := &Step{Seq: len(w.Steps), Kind: "edit", Edit: e, Intent: w.intent()}
	w.exec(st)
	return st
}

// Symlink creates a symbolic link in the working tree (the target may dangle).
func (w *World) Symlink(path, target string) *Step { return w.Edit("symlink", path, []byte(target)) }

// Hardlink makes path another name of the existing working file target (both relative to the working tree).
func (w *World) Hardlink(path, target string) *Step { return w.Edit("hardlink", path, []byte(target)) }

// EditRand writes size pseudo-random bytes determined by seed.
func (w *World) EditRand(path, seed string, size int64) *Step {
	e := &Edit{Op: "rand", Path: path, Data: []byte(seed), MTime: size}
	st := &Step{Seq: len(w.Steps), Kind: "edit", Edit: e, Intent: w.intent()}
	w.exec(st)
	return st
}

// Edit applies a user-side file-system edit as a monitored step.
func (w *World) Edit(op, path string, data []byte) *Step {
	e := &Edit{Op: op, Path: path, Data: data}
	if op == "touch" {
		e.MTime = int64(w.Rng.IntN(2_000_000_000))
	}
	st := &Step{Seq: len(w.Steps), Kind: "edit", Edit: e, Intent: w.intent()}
	w.exec(st)
	return st
}

func (w *World) Write(path string, data []byte) *Step { return w.Edit("write", path, data) }

// ReplayStep re-executes a recorded step.
func (w *World) ReplayStep(old *Step) *Step {
	st := &Step{Seq: len(w.Steps), Kind: old.Kind, Argv: old.Argv, TZ: old.TZ, Cwd: old.Cwd, Env: old.Env, Edit: old.Edit, Intent: old.Intent}
	w.exec(st)
	return st
}

// Fail records a failure at the current (last) step.
func (w *World) Fail(oracle, symptom, trigger, format string, a ...any) {
	seq := len(w.Steps) - 1
	f := Failure{Prop: w.C.Prop, Oracle: oracle, Symptom: symptom, Trigger: trigger, Detail: fmt.Sprintf(format, a...), Hist: w.Hist, Seq: seq}
	if w.C.Fail(f) {
		w.failed = append(w.failed, f)
	}
}

func (w *World) Failed() bool { return len(w.failed) > 0 }

// Finish writes a witness if the world saw a violation, and offers a sample.
func (w *World) Finish() {
	if len(w.failed) > 0 {
		// keep steps up to the last failing one
		last := 0
		for _, f := range w.failed {
			if f.Seq > last {
				last = f.Seq
			}
		}
		steps := w.Steps
		if last+1 < len(steps) {
			steps = steps[:last+1]
		}
		full := len(steps)
		// reserve the witness slot first: shrinking takes a while and the slots are bounded
		if slot, ok := w.C.WantWitness(); ok {
			if w.C.shrinkBudget() {
				steps = w.shrink(steps)
			}
			wit := &Witness{Kind: "history", Hist: w.Hist, Steps: steps, Failures: w.failed}
			if len(steps) < full {
				wit.Note = fmt.Sprintf("shrunk by delta debugging from %d to %d steps (same oracle|symptom still fails); failure details refer to the original history", full, len(steps))
			}
			w.C.writeWitnessSlot(wit, slot)
		}
	}
	if w.Hist < 3 {
		w.C.Sample(w.Render(14))
	}
}

func (w *World) Render(max int) []string {
	var out []string
	for i, s := range w.Steps {
		if i >= max {
			out = append(out, fmt.Sprintf("… %d more steps", len(w.Steps)-max))
			break
		}
		out = append(out, s.String())
	}
	return out
}

// ---------------------------------------------------------------------------------------
// Witness shrinking (delta debugging over the recorded steps)

func (c *Ctx) shrinkBudget() bool {
	c.mu.Lock()
	defer c.mu.Unlock()
	if c.NoShrink || c.shrunk >= 3 {
		return false
	}
	c.shrunk++
	return true
}

// reproduces re-executes steps in a fresh sandbox with the same monitors and reports whether a
// failure with one of the wanted oracle|symptom pairs occurs.
func (w *World) reproduces(steps []*Step, want map[string]bool) bool {
	sub := NewCtx(w.C.Prop, w.C.Tier, w.C.Seed)
	sub.Goit, sub.GoitVFS, sub.Scratch, sub.VerifDir = w.C.Goit, w.C.GoitVFS, w.C.Scratch, w.C.VerifDir
	sub.NoShrink = true
	sub.forceDeep = w.deep // a shrinking run lives in the same kind of place
	w.C.mu.Lock()
	w.C.shrinkRuns++
	n := w.C.shrinkRuns
	w.C.mu.Unlock()
	sw, err := sub.NewWorld(9_000_000+n, w.Mons)
	if err != nil {
		return false
	}
	defer sw.Close()
	sw.GoitBin = w.GoitBin
	for _, s := range steps {
		sw.ReplayStep(s)
	}
	for _, f := range sw.failed {
		if want[f.Oracle+"|"+f.Symptom] {
			return true
		}
	}
	return false
}

func (w *World) shrink(steps []*Step) []*Step {
	want := map[string]bool{}
	for _, f := range w.failed {
		want[f.Oracle+"|"+f.Symptom] = true
	}
	if len(steps) < 6 {
		return steps
	}
	if !w.reproduces(steps, want) {
		fmt.Fprintf(os.Stderr, "shrink: history %d does not reproduce step by step (%v)\n", w.Hist, want)
		return steps // not reproducible step by step (e.g. time dependent): keep the full history
	}
	runs := 0
	cur := steps
	for chunk := len(cur) / 2; chunk >= 1 && runs < 60; {
		removed := false
		for start := 0; start+chunk <= len(cur) && runs < 60; {
			cand := append(append([]*Step{}, cur[:start]...), cur[start+chunk:]...)
			runs++
			if len(cand) > 0 && w.reproduces(cand, want) {
				cur = cand
				removed = true
			} else {
				start += chunk
			}
		}
		if !removed || chunk > len(cur)/2 {
			chunk /= 2
		}
	}
	if os.Getenv("VERIF_DEBUG_SHRINK") != "" {
		fmt.Fprintf(os.Stderr, "shrink: history %d: %d -> %d steps in %d runs\n", w.Hist, len(steps), len(cur), runs)
	}
	return cur
}

// ---------------------------------------------------------------------------------------
// Worker pool

// RunHistories runs n independent histories on the worker pool.
func (c *Ctx) RunHistories(n int, mons func() []Monitor, drive func(w *World)) {
	c.RunHistoriesAt(0, n, mons, drive)
}

// RunHistoriesAt numbers the histories base, base+1, ... (the number selects the sandbox kind, see DeepLen).
func (c *Ctx) RunHistoriesAt(base, n int, mons func() []Monitor, drive func(w *World)) {
	jobs := make(chan int)
	var wg sync.WaitGroup
	for i := 0; i < c.Workers; i++ {
		wg.Add(1)
		go func() {
			defer wg.Done()
			for h := range jobs {
				c.runOne(h, mons, drive)
			}
		}()
	}
	for h := 0; h < n; h++ {
		jobs <- base + h
	}
	close(jobs)
	wg.Wait()
}

func (c *Ctx) runOne(h int, mons func() []Monitor, drive func(w *World)) {
	w, err := c.NewWorld(h, mons())
	if err != nil {
		c.Broken("sandbox: " + err.Error())
		return
	}
	defer w.Close()
	defer func() {
		if r := recover(); r != nil {
			buf := make([]byte, 4096)
			buf = buf[:runtime.Stack(buf, false)]
			c.Broken(fmt.Sprintf("harness panic in history %d: %v\n%s", h, r, buf))
		}
	}()
	drive(w)
	w.Finish()
	c.Count("histories")
}

// ParallelN runs f(i) for i in [0,n) on the worker pool.
func (c *Ctx) ParallelN(n int, f func(i int)) {
	jobs := make(chan int)
	var wg sync.WaitGroup
	for i := 0; i < c.Workers; i++ {
		wg.Add(1)
		go func() {
			defer wg.Done()
			for j := range jobs {
				func() {
					defer func() {
						if r := recover(); r != nil {
							buf := make([]byte, 4096)
							buf = buf[:runtime.Stack(buf, false)]
							c.Broken(fmt.Sprintf("harness panic in case %d: %v\n%s", j, r, buf))
						}
					}()
					f(j)
				}()
			}
		}()
	}
	for i := 0; i < n; i++ {
		jobs <- i
	}
	close(jobs)
	wg.Wait()
}

// ---------------------------------------------------------------------------------------
// Evidence and verdict

type Floor struct {
	Key string
	Min int64
}

// Finish writes the evidence file, prints KNOWN-FINDING / VIOLATION lines and returns the exit code.
func (c *Ctx) Finish(evidencePath string, floors []Floor) int {
	c.mu.Lock()
	defer c.mu.Unlock()
	wall := time.Since(c.Start).Seconds()
	// floors: generated-workload minimums; falling below means the harness is broken
	for _, f := range floors {
		v := c.counts[f.Key]
		if o, ok := c.oracles[f.Key]; ok {
			v = o
		}
		if v < f.Min {
			c.broken = append(c.broken, fmt.Sprintf("workload floor not met: %s = %d < %d", f.Key, v, f.Min))
		}
	}
	distinct := len(c.classes)
	cov := map[string]any{
		"evaluations":         c.evaluations,
		"distinct_nontrivial": distinct,
		"rule":                c.Rule,
		"samples":             c.samples,
		"oracle_evaluations":  c.oracles,
		"counts":              c.counts,
		"known_findings_hit":  c.knownHit,
		"inconclusive":        c.inconclusive,
	}
	if len(c.classes) <= 400 {
		cov["classes"] = c.classes
	} else {
		keys := make([]string, 0, len(c.classes))
		for k := range c.classes {
			keys = append(keys, k)
		}
		sort.Strings(keys)
		cov["classes_sample"] = keys[:200]
	}
	if len(c.notes) > 0 {
		cov["notes"] = c.notes
	}
	for k, v := range c.Extra {
		cov[k] = v
	}
	if len(c.samples) == 0 {
		cov["samples"] = []any{"(no sample recorded)"}
	}
	ev := map[string]any{
		"property_id": c.Prop,
		"tier":        c.Tier,
		"seed":        c.Seed,
		"level":       c.Level,
		"coverage":    cov,
		"assumptions": c.Assume,
		"wall_s":      wall,
		"violations":  len(c.failures),
	}
	if len(c.failures) > 0 {
		fs := c.failures
		if len(fs) > 20 {
			fs = fs[:20]
		}
		ev["violation_details"] = fs
	}
	if len(c.broken) > 0 {
		ev["broken"] = c.broken
	}
	b, _ := json.MarshalIndent(ev, "", " ")
	os.MkdirAll(filepath.Dir(evidencePath), 0o777)
	if err := os.WriteFile(evidencePath, b, 0o666); err != nil {
		fmt.Fprintln(os.Stderr, "cannot write evidence:", err)
	}
	// report
	whats := make([]string, 0, len(c.knownHit))
	for k := range c.knownHit {
		whats = append(whats, k)
	}
	sort.Strings(whats)
	for _, k := range whats {
		fmt.Printf("KNOWN-FINDING: property=%s %s (hit %d times)\n", c.Prop, k, c.knownHit[k])
	}
	fmt.Printf("%s %s seed=%d: %d evaluations, %d distinct classes, %d oracle evaluations, %d inconclusive, %.1fs\n",
		c.Prop, c.Tier, c.Seed, c.evaluations, distinct, sumMap(c.oracles), c.inconclusive, wall)
	if len(c.failures) > 0 {
		seen := map[string]int{}
		for _, f := range c.failures {
			seen[f.Signature()]++
		}
		sigs := make([]string, 0, len(seen))
		for s := range seen {
			sigs = append(sigs, s)
		}
		sort.Strings(sigs)
		for _, s := range sigs {
			fmt.Printf("  failing signature %s x%d\n", s, seen[s])
		}
		for i, f := range c.failures {
			if i >= 6 {
				break
			}
			fmt.Printf("  e.g. [%s] hist=%d seq=%d: %s\n", f.Signature(), f.Hist, f.Seq, f.Detail)
		}
		rp := "(none written)"
		if len(c.replayPaths) > 0 {
			sort.Strings(c.replayPaths) // slot 1 belongs to the first failing history (shrunk)
			rp = c.replayPaths[0]
		}
		fmt.Printf("VIOLATION property=%s replay=%s\n", c.Prop, rp)
		return 1
	}
	if len(c.broken) > 0 {
		for _, b := range c.broken {
			fmt.Fprintf(os.Stderr, "CHECK BROKEN (not a verdict): %s\n", b)
		}
		return 2
	}
	return 0
}

func sumMap(m map[string]int64) int64 {
	var s int64
	for _, v := range m {
		s += v
	}
	return s
}

// ---------------------------------------------------------------------------------------
// In-process monitor results (produced by goitin child processes, merged by goitmon)

type InResult struct {
	Evals     int64            `json:"evals"`
	Oracles   map[string]int64 `json:"oracles"`
	Counts    map[string]int64 `json:"counts"`
	Classes   map[string]int64 `json:"classes"`
	Failures  []Failure        `json:"failures"`
	FailCount int64            `json:"fail_count"`
	Samples   []any            `json:"samples"`
	Notes     []string         `json:"notes"`
}

func NewInResult() *InResult {
	return &InResult{Oracles: map[string]int64{}, Counts: map[string]int64{}, Classes: map[string]int64{}}
}

// Merge folds an in-process result into the run context. Returns the number of new violations.
func (c *Ctx) Merge(r *InResult, shard int) int {
	c.mu.Lock()
	c.evaluations += r.Evals
	for k, v := range r.Oracles {
		c.oracles[k] += v
	}
	for k, v := range r.Counts {
		c.counts[k] += v
	}
	for k, v := range r.Classes {
		c.classes[k] += v
	}
	for _, s := range r.Samples {
		if len(c.samples) < 5 {
			c.samples = append(c.samples, s)
		}
	}
	for _, n := range r.Notes {
		if len(c.notes) < 50 {
			c.notes = append(c.notes, n)
		}
	}
	c.mu.Unlock()
	nv := 0
	var viol []Failure
	for _, f := range r.Failures {
		f.Hist = shard
		if c.Fail(f) {
			nv++
			viol = append(viol, f)
		}
	}
	if len(viol) > 0 {
		if len(viol) > 20 {
			viol = viol[:20]
		}
		c.WriteWitness(&Witness{Kind: "custom", Hist: shard, Failures: viol})
	}
	return nv
}
