// vfsrewrite: purely syntactic rewrite of a scratch copy of Goit so that every os.* file-system
// call site (and time.Now) goes through the verifvfs shim. Call sites added by a future change
// are instrumented automatically; no type information is needed.
package main

import (
	"bytes"
	"flag"
	"fmt"
	"go/ast"
	"go/format"
	"go/parser"
	"go/token"
	"os"
	"path/filepath"
	"strconv"
	"strings"
)

var osFuncs = map[string]bool{"Create": true, "Open": true, "OpenFile": true, "CreateTemp": true, "ReadFile": true, "WriteFile": true, "ReadDir": true,
	"Mkdir": true, "MkdirAll": true, "Remove": true, "RemoveAll": true, "Rename": true, "Truncate": true, "Chmod": true, "Symlink": true, "Link": true, "File": true, "Getpid": true}
var ioutilFuncs = map[string]bool{"ReadFile": true, "WriteFile": true}

func main() {
	dir := flag.String("dir", "", "root of the scratch copy")
	shim := flag.String("shim", "", "directory holding vfs_on.go.txt / vfs_off.go.txt")
	flag.Parse()
	if *dir == "" || *shim == "" {
		fmt.Fprintln(os.Stderr, "usage: vfsrewrite -dir <copy> -shim <dir>")
		os.Exit(2)
	}
	modPath := modulePath(filepath.Join(*dir, "go.mod"))
	if modPath == "" {
		fmt.Fprintln(os.Stderr, "cannot read module path")
		os.Exit(2)
	}
	sites, files := 0, 0
	err := filepath.Walk(*dir, func(p string, fi os.FileInfo, err error) error {
		if err != nil {
			return err
		}
		if fi.IsDir() {
			base := filepath.Base(p)
			if base == ".git" || base == "verifvfs" || base == "verifapi" || base == "testdata" {
				return filepath.SkipDir
			}
			return nil
		}
		if !strings.HasSuffix(p, ".go") || strings.HasSuffix(p, "_test.go") {
			return nil
		}
		n, err := rewrite(p, modPath)
		if err != nil {
			return fmt.Errorf("%s: %w", p, err)
		}
		if n > 0 {
			sites += n
			files++
		}
		return nil
	})
	if err != nil {
		fmt.Fprintln(os.Stderr, err)
		os.Exit(1)
	}
	dst := filepath.Join(*dir, "verifvfs")
	os.MkdirAll(dst, 0o777)
	for _, f := range []string{"vfs_on.go", "vfs_off.go"} {
		b, err := os.ReadFile(filepath.Join(*shim, f+".txt"))
		if err != nil {
			fmt.Fprintln(os.Stderr, err)
			os.Exit(1)
		}
		os.WriteFile(filepath.Join(dst, f), b, 0o666)
	}
	fmt.Printf("vfsrewrite: %d call sites in %d files routed through %s/verifvfs\n", sites, files, modPath)
	if sites < 20 {
		fmt.Fprintln(os.Stderr, "suspiciously few call sites rewritten")
		os.Exit(1)
	}
}

func modulePath(gomod string) string {
	b, err := os.ReadFile(gomod)
	if err != nil {
		return ""
	}
	for _, ln := range strings.Split(string(b), "\n") {
		if strings.HasPrefix(ln, "module ") {
			return strings.TrimSpace(strings.TrimPrefix(ln, "module "))
		}
	}
	return ""
}

func rewrite(path, modPath string) (int, error) {
	fset := token.NewFileSet()
	f, err := parser.ParseFile(fset, path, nil, parser.ParseComments)
	if err != nil {
		return 0, err
	}
	osName, timeName, ioutilName := "", "", ""
	for _, im := range f.Imports {
		p, _ := strconv.Unquote(im.Path.Value)
		name := ""
		if im.Name != nil {
			name = im.Name.Name
		}
		switch p {
		case "os":
			osName = "os"
			if name != "" {
				osName = name
			}
		case "time":
			timeName = "time"
			if name != "" {
				timeName = name
			}
		case "io/ioutil":
			ioutilName = "ioutil"
			if name != "" {
				ioutilName = name
			}
		}
	}
	if osName == "" && timeName == "" && ioutilName == "" {
		return 0, nil
	}
	n := 0
	ast.Inspect(f, func(node ast.Node) bool {
		sel, ok := node.(*ast.SelectorExpr)
		if !ok {
			return true
		}
		id, ok := sel.X.(*ast.Ident)
		if !ok || id.Obj != nil { // id.Obj != nil: a local identifier shadows the package name
			return true
		}
		switch {
		case osName != "" && id.Name == osName && osFuncs[sel.Sel.Name]:
			id.Name = "verifvfs"
			n++
		case ioutilName != "" && id.Name == ioutilName && ioutilFuncs[sel.Sel.Name]:
			id.Name = "verifvfs"
			n++
		case timeName != "" && id.Name == timeName && sel.Sel.Name == "Now":
			id.Name = "verifvfs"
			n++
		}
		return true
	})
	if n == 0 {
		return 0, nil
	}
	// add the import
	imp := &ast.ImportSpec{Path: &ast.BasicLit{Kind: token.STRING, Value: strconv.Quote(modPath + "/verifvfs")}}
	added := false
	for _, d := range f.Decls {
		if gd, ok := d.(*ast.GenDecl); ok && gd.Tok == token.IMPORT {
			gd.Specs = append(gd.Specs, imp)
			if !gd.Lparen.IsValid() {
				gd.Lparen = gd.Pos()
				gd.Rparen = gd.End()
			}
			added = true
			break
		}
	}
	if !added {
		return 0, fmt.Errorf("no import declaration")
	}
	f.Imports = append(f.Imports, imp)
	var buf bytes.Buffer
	if err := format.Node(&buf, fset, f); err != nil {
		return 0, err
	}
	// keep possibly-unused imports alive
	if osName != "" {
		fmt.Fprintf(&buf, "\nvar _ = %s.Getpid\n", osName)
	}
	if timeName != "" {
		fmt.Fprintf(&buf, "\nvar _ %s.Duration\n", timeName)
	}
	if ioutilName != "" {
		fmt.Fprintf(&buf, "\nvar _ = %s.Discard\n", ioutilName)
	}
	return n, os.WriteFile(path, buf.Bytes(), 0o666)
}
