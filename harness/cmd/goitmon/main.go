// goitmon: entry point of the runtime monitors.
//
//	goitmon run -prop C03 -tier quick -seed 1 -goit <bin> [-goitvfs <bin>] [-goitin <bin>] -scratch <dir> -verif /verif
//	goitmon replay -file <witness> -goit <bin> ...
package main

import (
	"flag"
	"fmt"
	"os"
	"path/filepath"
	"runtime"
	"sort"
	"time"

	"verif/harness/core"
	"verif/harness/mon"
	"verif/harness/sandbox"
)

func main() {
	if len(os.Args) < 2 {
		usage()
	}
	switch os.Args[1] {
	case "run":
		os.Exit(run(os.Args[2:]))
	case "replay":
		os.Exit(replay(os.Args[2:]))
	case "list":
		ids := make([]string, 0)
		for id := range mon.Registry {
			ids = append(ids, id)
		}
		sort.Strings(ids)
		for _, id := range ids {
			fmt.Println(id, mon.Registry[id].Level)
		}
	default:
		usage()
	}
}

func usage() {
	fmt.Fprintln(os.Stderr, "usage: goitmon run|replay|list ...")
	os.Exit(2)
}

type common struct {
	prop, tier, goit, goitvfs, goitin, goitrace, scratch, verif, file, out string
	seed                                                                   int64
	workers                                                                int
}

func parse(args []string) *common {
	c := &common{}
	fs := flag.NewFlagSet("goitmon", flag.ExitOnError)
	fs.StringVar(&c.prop, "prop", "", "property id")
	fs.StringVar(&c.tier, "tier", "quick", "quick|thorough")
	fs.Int64Var(&c.seed, "seed", 1, "VERIF_SEED")
	fs.StringVar(&c.goit, "goit", "", "goit binary built from the current tree")
	fs.StringVar(&c.goitvfs, "goitvfs", "", "goit binary built from the vfs-rewritten copy")
	fs.StringVar(&c.goitin, "goitin", "", "in-process monitor binary")
	fs.StringVar(&c.goitrace, "goitrace", "", "goit binary built with -race (tripwire, C18 thorough)")
	fs.StringVar(&c.scratch, "scratch", "", "scratch directory (tmpfs)")
	fs.StringVar(&c.verif, "verif", "/verif", "verif directory")
	fs.StringVar(&c.file, "file", "", "witness file (replay)")
	fs.StringVar(&c.out, "out", "", "directory for evidence/ and replay/ (default: -verif)")
	fs.IntVar(&c.workers, "workers", 0, "worker count (default NumCPU)")
	fs.Parse(args)
	return c
}

func mkctx(a *common, prop string) (*core.Ctx, *mon.Prop, int) {
	p, ok := mon.Registry[prop]
	if !ok {
		fmt.Fprintf(os.Stderr, "unknown property %q\n", prop)
		return nil, nil, 2
	}
	if a.goit == "" || a.scratch == "" {
		fmt.Fprintln(os.Stderr, "-goit and -scratch are required")
		return nil, nil, 2
	}
	if err := sandbox.CheckNoAncestorGoit(a.scratch); err != nil {
		fmt.Fprintln(os.Stderr, "preflight:", err)
		return nil, nil, 2
	}
	c := core.NewCtx(prop, a.tier, a.seed)
	c.Level = p.Level
	c.Rule = p.Rule
	c.Assume = append(append([]string{}, p.Assume...), mon.CommonAssume()...)
	c.Goit, c.GoitVFS, c.GoitIn = a.goit, a.goitvfs, a.goitin
	c.GoitRace = a.goitrace
	c.Scratch = a.scratch
	c.VerifDir = a.verif
	if a.out != "" {
		c.VerifDir = a.out
	}
	if a.workers > 0 {
		c.Workers = a.workers
	}
	known, err := core.LoadKnown(filepath.Join(a.verif, "known_findings.json"))
	if err != nil {
		fmt.Fprintln(os.Stderr, "cannot read known_findings.json:", err)
		return nil, nil, 2
	}
	c.SetKnown(known)
	if p.NeedVFS && c.GoitVFS == "" {
		fmt.Fprintln(os.Stderr, "this property needs -goitvfs")
		return nil, nil, 2
	}
	if p.NeedIn && c.GoitIn == "" {
		fmt.Fprintln(os.Stderr, "this property needs -goitin")
		return nil, nil, 2
	}
	return c, p, 0
}

func run(args []string) int {
	a := parse(args)
	c, p, rc := mkctx(a, a.prop)
	if rc != 0 {
		return rc
	}
	// A generous wall-clock watchdog around the whole run (quick tiers take seconds, thorough ones minutes): if the
	// monitor itself does not come back, the check is BROKEN (exit 2, never a verdict) and says where it was.
	limit := 30 * time.Minute
	if a.tier == "thorough" {
		limit = 4 * time.Hour
	}
	time.AfterFunc(limit, func() {
		buf := make([]byte, 1<<20)
		n := runtime.Stack(buf, true)
		dump := filepath.Join(c.VerifDir, "replay", fmt.Sprintf("%s-monitor-stuck.txt", a.prop))
		os.MkdirAll(filepath.Dir(dump), 0o777)
		os.WriteFile(dump, buf[:n], 0o666)
		fmt.Fprintf(os.Stderr, "CHECK BROKEN (not a verdict): the monitor for %s did not finish within %v; goroutines in %s\n", a.prop, limit, dump)
		os.Exit(2)
	})
	p.Run(c)
	floors := p.Floors
	if a.tier == "thorough" {
		floors = append(append([]core.Floor{}, floors...), p.ThoroughFloors...)
	}
	return c.Finish(filepath.Join(c.VerifDir, "evidence", a.prop+".json"), floors)
}

func replay(args []string) int {
	a := parse(args)
	w, err := core.LoadWitness(a.file)
	if err != nil {
		fmt.Fprintln(os.Stderr, "cannot load witness:", err)
		return 2
	}
	a.tier = w.Tier
	a.seed = w.Seed
	c, p, rc := mkctx(a, w.Prop)
	if rc != 0 {
		return rc
	}
	c.SetKnown(nil) // a replay shows the raw failure, known or not
	c.VerifDir = filepath.Join(a.scratch, "replay-out")
	reproduced := false
	if w.Kind == "history" {
		world, err := c.NewWorld(w.Hist, p.Mons())
		if err != nil {
			fmt.Fprintln(os.Stderr, err)
			return 2
		}
		defer world.Close()
		for _, s := range w.Steps {
			st := world.ReplayStep(s)
			fmt.Println("  ", st.String())
		}
		reproduced = world.Failed()
	} else if p.Replay != nil {
		reproduced = p.Replay(c, w)
	} else {
		fmt.Fprintln(os.Stderr, "no replay handler for this witness kind")
		return 2
	}
	if reproduced {
		fmt.Printf("REPRODUCED property=%s (%d failing oracle evaluations)\n", w.Prop, c.Violations())
		c.Finish(filepath.Join(c.VerifDir, "evidence.json"), nil)
		return 1
	}
	fmt.Printf("NOT REPRODUCED property=%s\n", w.Prop)
	return 0
}
