package main

// Coverage-guided workload for C19 (thorough tier): Go's native fuzzing engine generates the inputs, the oracle is
// the same as in c19.go -- no panic (the engine reports it), an affine allocation bound, a time bound, and
// "what GetObject returns without error hashes to the requested id". Run by goitmon with an ITERATION budget
// (-fuzztime=Nx), never a time budget. The file is a _test.go file: it is not part of the goitin binary.

import (
	"bytes"
	"encoding/hex"
	"fmt"
	"os"
	"path/filepath"
	"runtime"
	"strings"
	"sync"
	"testing"
	"time"

	va "github.com/JunNishimura/Goit/verifapi"

	"verif/harness/gitfmt"
)

var (
	fuzzOnce sync.Once
	fuzzRoot string // <tmp>/w/.goit of a minimal healthy repository, private to this worker process
	fuzzW    string
	fuzzBlob = gitfmt.BlobID([]byte("hello\n"))
	fuzzTree string
	fuzzCmt  string
)

func fuzzRepo(t testing.TB) string {
	fuzzOnce.Do(func() {
		dir, err := os.MkdirTemp("", "c19fuzz")
		if err != nil {
			t.Fatal(err)
		}
		fuzzW = filepath.Join(dir, "w")
		fuzzRoot = filepath.Join(fuzzW, ".goit")
		put := func(kind string, body []byte) string {
			id := gitfmt.ObjectID(kind, body)
			d := filepath.Join(fuzzRoot, "objects", id[:2])
			os.MkdirAll(d, 0o777)
			os.WriteFile(filepath.Join(d, id[2:]), gitfmt.EncodeObjectFile(kind, body), 0o666)
			return id
		}
		put("blob", []byte("hello\n"))
		raw, _ := hex.DecodeString(fuzzBlob)
		sub := put("tree", append([]byte("100644 d.go\x00"), raw...))
		rawSub, _ := hex.DecodeString(sub)
		fuzzTree = put("tree", append(append(append([]byte("100644 a.txt\x00"), raw...), []byte("040000 dir\x00")...), rawSub...))
		fuzzCmt = put("commit", []byte("tree "+fuzzTree+"\nauthor A B <a@example.com> 1700000000 +0000\ncommitter A B <a@example.com> 1700000000 +0000\n\nmsg\n"))
		os.MkdirAll(filepath.Join(fuzzRoot, "refs", "heads"), 0o777)
		os.MkdirAll(filepath.Join(fuzzRoot, "logs", "refs", "heads"), 0o777)
		fuzzRestore()
	})
	return fuzzRoot
}

// fuzzRestore puts the valid versions of the small files back (a target damages exactly one of them).
func fuzzRestore() {
	os.WriteFile(filepath.Join(fuzzRoot, "HEAD"), []byte("ref: refs/heads/main"), 0o666)
	os.WriteFile(filepath.Join(fuzzRoot, "refs", "heads", "main"), []byte(fuzzCmt), 0o666)
	os.WriteFile(filepath.Join(fuzzRoot, "config"), []byte("[user]\n\tname = A B\n\temail = a@example.com\n"), 0o666)
	os.WriteFile(filepath.Join(fuzzRoot, "index"), gitfmt.EncodeIndex([]gitfmt.IndexEntry{{ID: fuzzBlob, Path: "a.txt"}, {ID: fuzzBlob, Path: "dir/d.go"}}), 0o666)
	os.WriteFile(filepath.Join(fuzzRoot, "logs", "HEAD"), []byte(strings.Repeat("0", 40)+" "+fuzzCmt+" A B <a@example.com> 1700000000 +0000\tcommit (initial): msg\n"), 0o666)
	os.WriteFile(filepath.Join(fuzzW, ".goitignore"), []byte("build/\n*.log\n"), 0o666)
}

// guarded runs one decoder call under the allocation and time bounds (a panic is the engine's business).
func guarded(t *testing.T, what string, inSize int, f func()) {
	var m0, m1 runtime.MemStats
	runtime.ReadMemStats(&m0)
	t0 := time.Now()
	f()
	d := time.Since(t0)
	runtime.ReadMemStats(&m1)
	if bound := uint64(64<<20) + 2000*uint64(inSize); m1.TotalAlloc-m0.TotalAlloc > bound {
		t.Fatalf("%s allocated %d bytes for an input of %d bytes (bound %d)", what, m1.TotalAlloc-m0.TotalAlloc, inSize, bound)
	}
	if d > 5*time.Second {
		t.Fatalf("%s took %v for an input of %d bytes", what, d, inSize)
	}
}

func FuzzObjectFile(f *testing.F) {
	f.Add(gitfmt.EncodeObjectFile("blob", []byte("hello\n")))
	f.Add(gitfmt.EncodeObjectFile("tree", []byte("100644 a\x00"+strings.Repeat("\x01", 20))))
	f.Add(gitfmt.EncodeObjectFile("commit", []byte("tree "+strings.Repeat("a", 40)+"\n\nm\n")))
	f.Add(gitfmt.DeflateRaw([]byte("blob 99999999999\x00x")))
	f.Add([]byte{})
	f.Fuzz(func(t *testing.T, data []byte) {
		root := fuzzRepo(t)
		id := fuzzBlob
		p := filepath.Join(root, "objects", id[:2], id[2:])
		valid, _ := os.ReadFile(p)
		os.WriteFile(p, data, 0o666)
		defer os.WriteFile(p, valid, 0o666)
		h, _ := hex.DecodeString(id)
		guarded(t, "GetObject", len(data), func() {
			o, err := va.GetObject(root, va.SHA1(h))
			if err == nil {
				if got := gitfmt.ObjectID(o.Type.String(), o.Data); got != id {
					t.Fatalf("GetObject(%s) on a damaged file returned %s/%d bytes whose id is %s", id, o.Type, len(o.Data), got)
				}
			}
		})
	})
}

func FuzzTreeBody(f *testing.F) {
	raw, _ := hex.DecodeString(fuzzBlob)
	f.Add(append([]byte("100644 a.txt\x00"), raw...))
	f.Add(append(append([]byte("040000 dir\x00"), raw...), append([]byte("100644 z\x00"), raw...)...))
	f.Add([]byte{})
	f.Fuzz(func(t *testing.T, body []byte) {
		root := fuzzRepo(t)
		guarded(t, "NewTree", len(body), func() {
			o, _ := va.NewObject(va.TreeObject, body)
			tr, err := va.NewTree(root, o)
			if err == nil {
				_ = tr.String()
				va.GetNode(tr.Children, "dir/sub/d.go")
				va.GetNode(tr.Children, "a.txt")
			}
		})
	})
}

func FuzzCommitBody(f *testing.F) {
	f.Add([]byte("tree " + strings.Repeat("a", 40) + "\nparent " + strings.Repeat("b", 40) + "\nauthor A B <a@example.com> 1700000000 +0000\ncommitter A B <a@example.com> 1700000000 -0330\n\nmsg\n\nbody\n"))
	f.Add([]byte("tree\n\n"))
	f.Add([]byte{})
	f.Fuzz(func(t *testing.T, body []byte) {
		guarded(t, "NewCommit", len(body), func() {
			o, _ := va.NewObject(va.CommitObject, body)
			cm, err := va.NewCommit(o)
			if err == nil {
				_ = cm.String()
			}
		})
	})
}

// fuzzFile is the shape shared by the small-file targets: write data over one file, load, restore.
func fuzzFile(f *testing.F, rel string, inW bool, seeds [][]byte, load func(root string)) {
	for _, s := range seeds {
		f.Add(s)
	}
	f.Fuzz(func(t *testing.T, data []byte) {
		root := fuzzRepo(t)
		p := filepath.Join(root, rel)
		if inW {
			p = filepath.Join(fuzzW, rel)
		}
		valid, _ := os.ReadFile(p)
		os.WriteFile(p, data, 0o666)
		defer os.WriteFile(p, valid, 0o666)
		if cwd, _ := os.Getwd(); cwd != fuzzW {
			os.Chdir(fuzzW) // the ignore loader resolves its file against the current directory; the worker stays there
		}
		guarded(t, "load of "+rel, len(data), func() { load(root) })
	})
}

func FuzzIndexFile(f *testing.F) {
	fuzzFile(f, "index", false, [][]byte{gitfmt.EncodeIndex([]gitfmt.IndexEntry{{ID: fuzzBlob, Path: "a.txt"}, {ID: fuzzBlob, Path: "dir/d.go"}}), []byte("DIRC"), {}}, func(root string) {
		if ix, err := va.NewIndex(root); err == nil {
			ix.GetEntry([]byte("a.txt"))
			ix.IsRegisteredAsDirectory("dir")
			ix.GetEntriesByDirectory("dir")
		}
	})
}

func FuzzHeadFile(f *testing.F) {
	fuzzFile(f, "HEAD", false, [][]byte{[]byte("ref: refs/heads/main"), []byte("ref: refs/heads/a: b"), []byte(strings.Repeat("a", 40)), {}}, func(root string) {
		if h, err := va.NewHead(root); err == nil {
			_ = h.Reference
		}
	})
}

func FuzzBranchFile(f *testing.F) {
	fuzzFile(f, filepath.Join("refs", "heads", "main"), false, [][]byte{[]byte(strings.Repeat("a", 40)), []byte(strings.Repeat("0", 40)), []byte("ref: refs/heads/x"), {}}, func(root string) {
		if rf, err := va.NewRefs(root); err == nil {
			rf.IsBranchExist("main")
		}
		va.NewHead(root)
	})
}

func FuzzConfigFile(f *testing.F) {
	fuzzFile(f, "config", false, [][]byte{[]byte("[user]\n\tname = A B\n\temail = a@example.com\n"), []byte("[]\n"), []byte("k = v\n"), []byte("[a]\n\tb = c = d\n"), {}}, func(root string) {
		if cf, err := va.NewConfig(root); err == nil {
			cf.IsUserSet()
			cf.GetUserName()
			cf.GetEmail()
		}
	})
}

func FuzzReflogFile(f *testing.F) {
	line := strings.Repeat("0", 40) + " " + strings.Repeat("a", 40) + " A B <a@example.com> 1700000000 +0000\tcommit (initial): msg\n"
	fuzzFile(f, filepath.Join("logs", "HEAD"), false, [][]byte{[]byte(line), []byte(line + line), []byte("x y z\n"), {}}, func(root string) {
		h, err := va.NewHead(root)
		if err != nil {
			return
		}
		rf, err := va.NewRefs(root)
		if err != nil {
			return
		}
		if rl, err := va.NewReflog(root, h, rf); err == nil {
			for i := 0; i < 4; i++ {
				rl.GetRecord(i)
			}
			rl.Show()
		}
	})
}

func FuzzIgnoreFile(f *testing.F) {
	fuzzFile(f, ".goitignore", true, [][]byte{[]byte("build/\n*.log\n"), []byte("a(b\n[x\n"), []byte("*\n"), {}}, func(root string) {
		if ig, err := va.NewIgnore(root); err == nil {
			ix, _ := va.NewIndex(root)
			ig.IsIncluded("build/x", ix)
			ig.IsIncluded("a.log", ix)
			ig.IsIncluded("a(b", ix)
		}
	})
}

func FuzzReadHash(f *testing.F) {
	f.Add(strings.Repeat("a", 40))
	f.Add("xyz")
	f.Add("")
	f.Fuzz(func(t *testing.T, s string) {
		root := fuzzRepo(t)
		guarded(t, "ReadHash", len(s), func() {
			h, err := va.ReadHash(s)
			if err == nil && len(h) != 20 {
				if _, err := va.GetObject(root, h); err == nil {
					t.Fatalf("ReadHash(%q) gives %d bytes and GetObject accepts them", s, len(h))
				}
			}
		})
	})
}

var _ = bytes.Equal
var _ = fmt.Sprint
