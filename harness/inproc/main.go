// goitin: in-process monitors. Links the CURRENT /repo sources (package verifapi, build tag verif)
// through a replace directive written by /verif/check. One process runs one shard of one
// property's in-process workload and writes its result as JSON; a death of the process is
// attributed to the input named in the progress file.
package main

import (
	"encoding/json"
	"flag"
	"fmt"
	"math/rand/v2"
	"os"
	"path/filepath"
	"runtime"
	"runtime/debug"
	"strings"
	"sync/atomic"
	"syscall"
	"time"

	"verif/harness/core"
)

type runCtx struct {
	prop, tier string
	seed       int64
	shard, of  int
	work       string // private scratch dir
	goit       string // goit binary (for the few monitors that mix in CLI calls)
	res        *core.InResult
	progress   *os.File
	rng        *rand.Rand
}

func (c *runCtx) thorough() bool { return c.tier == "thorough" }
func (c *runCtx) pick(q, t int) int {
	if c.thorough() {
		return t
	}
	return q
}
func (c *runCtx) oracle(id string) { c.res.Oracles[id]++ }
func (c *runCtx) count(k string)   { c.res.Counts[k]++ }
func (c *runCtx) class(k string)   { c.res.Classes[k]++ }
func (c *runCtx) sample(s any) {
	if len(c.res.Samples) < 4 {
		c.res.Samples = append(c.res.Samples, s)
	}
}
func (c *runCtx) fail(oracle, symptom, trigger, format string, a ...any) {
	if len(c.res.Failures) < 200 {
		c.res.Failures = append(c.res.Failures, core.Failure{Prop: c.prop, Oracle: oracle, Symptom: symptom, Trigger: trigger, Detail: fmt.Sprintf(format, a...)})
	}
	c.res.FailCount++
}

// note writes the description of the case about to run into the progress file (before the call).
func (c *runCtx) note(format string, a ...any) {
	s := fmt.Sprintf(format, a...)
	if len(s) > 3900 {
		s = s[:3900]
	}
	buf := make([]byte, 4096)
	copy(buf, s)
	c.progress.WriteAt(buf, 0)
}

// guarded runs f under recover; a panic becomes a failure of the given oracle.
// watchdog state: the call currently running under guarded()
var (
	callStartNs atomic.Int64
	callCPUms   atomic.Int64
	callWhat    atomic.Value // func() string
	callOracle  atomic.Value // string
)

// startWatchdog ends the process with a "hang" failure when one guarded call has consumed more than
// hangCPUms of CPU (a call that never returns cannot be judged after the fact).
func (c *runCtx) startWatchdog(out string) {
	const hangCPUms = 8000
	go func() {
		for {
			time.Sleep(250 * time.Millisecond)
			st := callStartNs.Load()
			if st == 0 {
				continue
			}
			if cpuMs()-callCPUms.Load() < hangCPUms {
				continue
			}
			desc := "(unknown call)"
			if w, ok := callWhat.Load().(func() string); ok && w != nil {
				desc = w()
			}
			oracle, _ := callOracle.Load().(string)
			prop := c.prop
			c.res.Failures = append(c.res.Failures, core.Failure{Prop: prop, Oracle: prop + ".cpu", Symptom: "hang", Trigger: oracle,
				Detail: fmt.Sprintf("%s has been running for more than %d ms of CPU time without returning (hang)", desc, hangCPUms)})
			c.res.FailCount++
			b, _ := json.Marshal(c.res)
			os.WriteFile(out, b, 0o666)
			os.Exit(0)
		}
	}()
}

func (c *runCtx) guarded(oracle, trigger string, what any, f func()) (panicked bool) {
	switch w := what.(type) {
	case string:
		callWhat.Store(func() string { return w })
	case func() string:
		callWhat.Store(w)
	}
	callOracle.Store(oracle)
	callCPUms.Store(cpuMs())
	callStartNs.Store(time.Now().UnixNano())
	defer callStartNs.Store(0)
	defer func() {
		if r := recover(); r != nil {
			panicked = true
			st := string(debug.Stack())
			desc := ""
			switch w := what.(type) {
			case string:
				desc = w
			case func() string:
				desc = w()
			}
			c.fail(oracle, panicClass(fmt.Sprint(r)), trigger, "%s panicked: %v | %s", desc, r, firstFrames(st))
		}
	}()
	f()
	return false
}

func panicClass(line string) string {
	switch {
	case strings.Contains(line, "(harness) command did not finish"):
		return "hang"
	case strings.Contains(line, "all goroutines are asleep"):
		return "deadlock"
	case strings.Contains(line, "concurrent map"):
		return "fatal:concurrent-map-access"
	case strings.Contains(line, "nil pointer dereference"):
		return "panic:nil-deref"
	case strings.Contains(line, "index out of range"):
		return "panic:index-out-of-range"
	case strings.Contains(line, "slice bounds out of range"):
		return "panic:slice-bounds"
	case strings.Contains(line, "regexp:"):
		return "panic:regexp-compile"
	case strings.Contains(line, "nil map"):
		return "panic:nil-map"
	case strings.Contains(line, "makeslice") || strings.Contains(line, "out of memory"):
		return "panic:alloc"
	}
	return "panic:other"
}

func firstFrames(st string) string {
	var keep []string
	for _, ln := range strings.Split(st, "\n") {
		if strings.Contains(ln, "JunNishimura/Goit/") && strings.Contains(ln, ".go:") {
			keep = append(keep, strings.TrimSpace(ln))
			if len(keep) == 3 {
				break
			}
		}
	}
	return strings.Join(keep, " <- ")
}

func cpuMs() int64 {
	var ru syscall.Rusage
	syscall.Getrusage(syscall.RUSAGE_SELF, &ru)
	return (ru.Utime.Sec+ru.Stime.Sec)*1000 + (ru.Utime.Usec+ru.Stime.Usec)/1000
}

func totalAlloc() uint64 {
	var ms runtime.MemStats
	runtime.ReadMemStats(&ms)
	return ms.TotalAlloc
}

var monitors = map[string]func(c *runCtx){}

func main() {
	c := &runCtx{res: core.NewInResult()}
	var out string
	flag.StringVar(&c.prop, "prop", "", "")
	flag.StringVar(&c.tier, "tier", "quick", "")
	flag.Int64Var(&c.seed, "seed", 1, "")
	flag.IntVar(&c.shard, "shard", 0, "")
	flag.IntVar(&c.of, "of", 1, "")
	flag.StringVar(&c.work, "work", "", "")
	flag.StringVar(&c.goit, "goit", "", "")
	flag.StringVar(&out, "out", "", "")
	sub := flag.String("sub", "", "sub-monitor (default: the property's whole in-process workload)")
	flag.Parse()
	if c.work == "" || out == "" {
		fmt.Fprintln(os.Stderr, "usage: goitin -prop C01 -tier quick -seed 1 -shard 0 -of 16 -work dir -out file")
		os.Exit(2)
	}
	os.MkdirAll(c.work, 0o777)
	// HOME is private: store.NewConfig reads $HOME/.goitconfig
	os.Setenv("HOME", filepath.Join(c.work, "home"))
	os.MkdirAll(filepath.Join(c.work, "home"), 0o777)
	os.Setenv("NO_COLOR", "1")
	pf, err := os.Create(out + ".progress")
	if err != nil {
		fmt.Fprintln(os.Stderr, err)
		os.Exit(2)
	}
	c.progress = pf
	c.rng = rand.New(rand.NewPCG(uint64(c.seed), uint64(c.shard)*7919+13))
	debug.SetMaxStack(64 << 20)
	key := c.prop
	if *sub != "" {
		key = c.prop + "." + *sub
	}
	m, ok := monitors[key]
	if !ok {
		fmt.Fprintln(os.Stderr, "no in-process monitor", key)
		os.Exit(2)
	}
	// Goit prints to stdout in a few APIs (Reflog.Show, DeleteBranch): keep our stdout clean
	devnull, _ := os.OpenFile(os.DevNull, os.O_WRONLY, 0)
	os.Stdout = devnull
	c.startWatchdog(out)
	m(c)
	callStartNs.Store(0)
	b, _ := json.Marshal(c.res)
	if err := os.WriteFile(out, b, 0o666); err != nil {
		fmt.Fprintln(os.Stderr, err)
		os.Exit(2)
	}
}
