package main

import (
	"encoding/hex"
	"fmt"
	"os"
	"path/filepath"
	"regexp"
	"sort"
	"strings"
	"time"

	va "github.com/JunNishimura/Goit/verifapi"

	"verif/harness/gen"
	"verif/harness/gitfmt"
)

// universe of paths around the byte order of '/' (same as the CLI part of C06/C07)
var c06Universe = []string{
	"d", "d-old", "d.c", "d d", "d0", "ad", "da", "d/x", "d/y z", "d/sub/f", "ad/x", "a/d/x", "d-old/x", "d.c/y",
	"a(b", "a(b/x", "a+b/x", "a.b/x", "aXb/x", "[x]/y", "test/a", "test.c", "test-data", "test0", "lib/m.go", "lib.go", "lib-old", "x", "d/X", "D", "D/x", "Lib.go",
	"a*b/x", "a|b", "^s/x", "e$", "{k}/v", "q?/r",
}

func conflictFree(ps []string) bool {
	for _, p := range ps {
		for _, q := range ps {
			if p != q && strings.HasPrefix(q, p+"/") {
				return false
			}
		}
	}
	return true
}

func c06Queries() []string {
	set := map[string]bool{}
	for _, p := range c06Universe {
		set[p] = true
		parts := strings.Split(p, "/")
		for i := 1; i <= len(parts); i++ {
			set[strings.Join(parts[:i], "/")] = true
		}
		for _, comp := range parts {
			set[comp] = true
		}
	}
	set["."] = true
	set[""] = true
	set["d/"] = true
	set["/"] = true
	out := make([]string, 0, len(set))
	for q := range set {
		out = append(out, q)
	}
	sort.Strings(out)
	return out
}

// C06: exhaustive lookups on generated entry sets through the real Index API.
func monC06(c *runCtx) {
	k := c.pick(3, 4)
	queries := c06Queries()
	var sets [][]string
	var rec func(start int, cur []string)
	rec = func(start int, cur []string) {
		if len(cur) > 0 && conflictFree(cur) {
			sets = append(sets, append([]string{}, cur...))
		}
		if len(cur) == k {
			return
		}
		for i := start; i < len(c06Universe); i++ {
			rec(i+1, append(cur, c06Universe[i]))
		}
	}
	rec(0, nil)
	c.res.Counts["C06.sets-total"] = int64(len(sets))
	c.res.Counts["C06.queries-per-set"] = int64(len(queries))
	if c.shard == 0 {
		c.res.Notes = append(c.res.Notes, fmt.Sprintf("exhaustive sub-space: all %d conflict-free subsets of size<=%d of a %d-path universe x %d queries, split over %d shards", len(sets), k, len(c06Universe), len(queries), c.of))
	}
	root := filepath.Join(c.work, "repo", ".goit")
	os.MkdirAll(root, 0o777)
	id := func(i int) va.SHA1 {
		h := make([]byte, 20)
		h[0], h[19] = byte(i), byte(i>>8)
		return h
	}
	for si := c.shard; si < len(sets); si += c.of {
		P := append([]string{}, sets[si]...)
		c.rng.Shuffle(len(P), func(i, j int) { P[i], P[j] = P[j], P[i] })
		os.Remove(filepath.Join(root, "index"))
		c.note("C06 set %d %q", si, P)
		var ix *va.Index
		var err error
		bad := c.guarded("C06.getentry", "build", "NewIndex/Update", func() {
			ix, err = va.NewIndex(root)
			if err != nil {
				return
			}
			for i, p := range P {
				if _, err = ix.Update(root, id(i), []byte(p)); err != nil {
					return
				}
			}
		})
		if bad {
			continue
		}
		if err != nil {
			c.fail("C06.getentry", "build-error", "build", "building index %q: %v", P, err)
			continue
		}
		// the file written must decode to exactly these entries, strictly ascending
		c.oracle("C06.file-canonical")
		raw, _ := os.ReadFile(filepath.Join(root, "index"))
		dec, derr := gitfmt.ParseIndex(raw)
		sorted := append([]string{}, P...)
		sort.Strings(sorted)
		if derr != nil {
			c.fail("C06.file-canonical", "index-undecodable", "update", "index written for %q does not decode: %v", P, derr)
		} else {
			var got []string
			for _, e := range dec.Entries {
				got = append(got, e.Path)
			}
			if strings.Join(got, "\x00") != strings.Join(sorted, "\x00") {
				c.fail("C06.file-canonical", "entries-differ", "update", "index written after inserting %q holds %q", P, got)
			}
		}
		// reload through the real reader too
		var ix2 *va.Index
		c.guarded("C06.getentry", "reload", "NewIndex(reload)", func() { ix2, err = va.NewIndex(root) })
		inSet := map[string]bool{}
		for _, p := range P {
			inSet[p] = true
		}
		for _, q := range queries {
			c.res.Evals++
			wantDir := []string{}
			for _, p := range sorted {
				if q != "" && strings.HasPrefix(p, q+"/") && len(p) > len(q)+1 {
					wantDir = append(wantDir, p)
				}
			}
			nontrivial := inSet[q] || len(wantDir) > 0
			if nontrivial {
				c.class(fmt.Sprintf("%q|%q", strings.Join(sorted, ","), q))
			}
			trig := "none"
			if strings.ContainsAny(q, "()[]*?|^${}+") {
				trig = "metachar-query"
			}
			for _, idx := range []*va.Index{ix, ix2} {
				if idx == nil {
					continue
				}
				c.oracle("C06.getentry")
				c.guarded("C06.getentry", trig, func() string { return fmt.Sprintf("GetEntry(%q) on %q", q, sorted) }, func() {
					_, e, found := idx.GetEntry([]byte(q))
					if found != inSet[q] {
						c.fail("C06.getentry", "found-differs", trig, "GetEntry(%q) on %q: found=%v", q, sorted, found)
					} else if found && string(e.Path) != q {
						c.fail("C06.getentry", "wrong-entry", trig, "GetEntry(%q) returned entry %q", q, e.Path)
					}
				})
				c.oracle("C06.isdir")
				c.guarded("C06.isdir", trig, func() string { return fmt.Sprintf("IsRegisteredAsDirectory(%q) on %q", q, sorted) }, func() {
					if got := idx.IsRegisteredAsDirectory(q); got != (len(wantDir) > 0) {
						c.fail("C06.isdir", "isdir-differs", trig, "IsRegisteredAsDirectory(%q) on %q = %v, tracked beneath: %q", q, sorted, got, wantDir)
					}
				})
				c.oracle("C06.bydir")
				c.guarded("C06.bydir", trig, func() string { return fmt.Sprintf("GetEntriesByDirectory(%q) on %q", q, sorted) }, func() {
					var got []string
					for _, e := range idx.GetEntriesByDirectory(q) {
						got = append(got, string(e.Path))
					}
					sort.Strings(got)
					if strings.Join(got, "\x00") != strings.Join(wantDir, "\x00") {
						c.fail("C06.bydir", "selection-differs", trig, "GetEntriesByDirectory(%q) on %q = %q, expected %q", q, sorted, got, wantDir)
					}
				})
			}
		}
		// a change and its reversal on an index LOADED from the file (as every command does): the file must hold the entries
		// last written after each step, also when they equal what was loaded
		if (si/c.of)%3 == 1 {
			holds := func(step string, want []string) bool {
				raw, _ := os.ReadFile(filepath.Join(root, "index"))
				dec, perr := gitfmt.ParseIndex(raw)
				var got []string
				if perr == nil {
					for _, e := range dec.Entries {
						got = append(got, e.Path)
					}
				}
				c.oracle("C06.file-canonical")
				if perr != nil || strings.Join(got, "\x00") != strings.Join(want, "\x00") {
					c.fail("C06.file-canonical", "entries-differ-after-change-and-reversal", "reversal", "loaded %q; after %s the index file holds %q (err %v), the entries last written are %q", sorted, step, got, perr, want)
					return false
				}
				return true
			}
			var ix2 *va.Index
			var e1, e2, e3, e4 error
			extra := "~extra entry"
			if !c.guarded("C06.file-canonical", "reversal", "NewIndex/Update/DeleteEntry", func() {
				if ix2, e1 = va.NewIndex(root); e1 != nil {
					return
				}
				_, e2 = ix2.Update(root, id(77), []byte(extra))
			}) && e1 == nil && e2 == nil {
				c.class("C06.reversal|loaded-n" + fmt.Sprint(min(len(sorted), 4)))
				with := append(append([]string{}, sorted...), extra)
				sort.Strings(with)
				if holds("Update(extra)", with) {
					c.guarded("C06.file-canonical", "reversal", "DeleteEntry(extra)", func() { e3 = ix2.DeleteEntry(root, []byte(extra)) })
					if e3 == nil && holds("Update(extra), DeleteEntry(extra)", sorted) && len(sorted) > 0 {
						c.guarded("C06.file-canonical", "reversal", "DeleteEntry/Update", func() {
							if e4 = ix2.DeleteEntry(root, []byte(sorted[0])); e4 == nil {
								_, e4 = ix2.Update(root, id(0), []byte(sorted[0]))
							}
						})
						if e4 == nil {
							holds("DeleteEntry(first), Update(first)", sorted)
						}
					}
				}
			}
		}
		// delete the entries one by one in a shuffled order: after each deletion the file must decode to the rest
		if si%4 == c.shard%4 {
			rest := append([]string{}, sorted...)
			c.rng.Shuffle(len(rest), func(i, j int) { rest[i], rest[j] = rest[j], rest[i] })
			for len(rest) > 0 {
				victim := rest[len(rest)-1]
				rest = rest[:len(rest)-1]
				var derr error
				if c.guarded("C06.file-canonical", "delete", func() string { return fmt.Sprintf("DeleteEntry(%q)", victim) }, func() { derr = ix.DeleteEntry(root, []byte(victim)) }) {
					break
				}
				c.oracle("C06.file-canonical")
				if derr != nil {
					c.fail("C06.file-canonical", "delete-error", "delete", "DeleteEntry(%q) on %q: %v", victim, sorted, derr)
					break
				}
				raw, _ := os.ReadFile(filepath.Join(root, "index"))
				dec, perr := gitfmt.ParseIndex(raw)
				want := append([]string{}, rest...)
				sort.Strings(want)
				var got []string
				if perr == nil {
					for _, e := range dec.Entries {
						got = append(got, e.Path)
					}
				}
				if perr != nil || strings.Join(got, "\x00") != strings.Join(want, "\x00") {
					c.fail("C06.file-canonical", "entries-differ-after-delete", "delete", "after DeleteEntry(%q) the index file holds %q (err %v), expected %q", victim, got, perr, want)
					break
				}
				if _, rerr := va.NewIndex(root); rerr != nil {
					c.fail("C06.file-canonical", "index-unreadable-after-delete", "delete", "after DeleteEntry(%q) NewIndex fails: %v", victim, rerr)
					break
				}
			}
		}
		if si < 3*c.of {
			c.sample(fmt.Sprintf("P=%q inserted in order %q; %d queries", sorted, P, len(queries)))
		}
	}
}

var signRe = regexp.MustCompile(`^(.*) <([^<>]*)> ([0-9]+) ([+-][0-9]{4})$`)

// C12: Sign / NewCommit round trip over all quarter-hour offsets x instants x texts.
func monC12(c *runCtx) {
	offs := gen.TZOffsets()
	instants := []int64{0, 1, 59, 86399, 1_000_000_000, 1<<31 - 1, 1 << 31, 1 << 32, 253402300799}
	for i := 0; i < c.pick(3, 12); i++ {
		instants = append(instants, c.rng.Int64N(4_000_000_000))
	}
	names := []string{"A", "Alice B. Carol", "José Núñez", "山田 太郎", "O'Neil", "a>b", "Dr. X (PhD)", "x=y", "#1 dev", "[bot]", "tab-less name with  two spaces"}
	emails := []string{"a@example.com", "first.last@sub.example.org", "x_y+tag@a-b.co", "u@d.io", "A.B-c@x1.y2.museum"}
	tree := strings.Repeat("ab", 20)
	n := 0
	for oi, off := range offs {
		if oi%c.of != c.shard {
			continue
		}
		for _, ins := range instants {
			reps := c.pick(2, 6)
			for r := 0; r < reps; r++ {
				n++
				name := names[c.rng.IntN(len(names))]
				email := emails[c.rng.IntN(len(emails))]
				msg, mclass := gen.Message(c.rng, n)
				msg = strings.ReplaceAll(msg, "\r", "")
				trig := "offset" + signClass(off)
				c.res.Evals++
				c.class(fmt.Sprintf("%s|ins%d|%s", gen.TZName(off), ins, mclass))
				c.note("C12 offset=%d instant=%d name=%q email=%q msg=%q", off, ins, name, email, msg)
				loc := time.FixedZone("x", off*60)
				sg := va.Sign{Name: name, Email: email, Timestamp: time.Unix(ins, 0).In(loc)}
				var s string
				if c.guarded("C12.sign-format", trig, "Sign.String", func() { s = sg.String() }) {
					continue
				}
				c.oracle("C12.sign-format")
				m := signRe.FindStringSubmatch(s)
				if m == nil || m[1] != name || m[2] != email || m[3] != fmt.Sprint(ins) || m[4] != gen.TZName(off) {
					c.fail("C12.sign-format", "format-differs", trig, "Sign{%q,%q,%d,%s}.String() = %q", name, email, ins, gen.TZName(off), s)
					continue
				}
				body := fmt.Sprintf("tree %s\nauthor %s\ncommitter %s\n\n%s\n", tree, s, s, msg)
				var cm *va.Commit
				var err error
				if c.guarded("C12.sign-roundtrip", trig, "NewCommit", func() {
					var o *va.Object
					o, err = va.NewObject(va.CommitObject, []byte(body))
					if err == nil {
						cm, err = va.NewCommit(o)
					}
				}) {
					continue
				}
				c.oracle("C12.sign-roundtrip")
				if err != nil || cm == nil {
					c.fail("C12.sign-roundtrip", "commit-rejected", trig, "NewCommit rejects a commit signed %q: %v", s, err)
					continue
				}
				for who, g := range map[string]va.Sign{"author": cm.Author, "committer": cm.Committer} {
					_, goff := g.Timestamp.Zone()
					if g.Name != name || g.Email != email || g.Timestamp.Unix() != ins || goff != off*60 {
						c.fail("C12.sign-roundtrip", "fields-differ", trig, "%s read back as {%q,%q,%d,%+d s}, written {%q,%q,%d,%+d s}", who, g.Name, g.Email, g.Timestamp.Unix(), goff, name, email, ins, off*60)
					}
				}
				c.oracle("C12.message")
				if cm.Message != msg {
					c.fail("C12.message", "message-differs", "message:"+mclass, "message read back %q, written %q", clip(cm.Message, 80), clip(msg, 80))
				}
				if hex.EncodeToString(cm.Tree) != tree {
					c.fail("C12.sign-roundtrip", "tree-differs", trig, "tree id read back %x", cm.Tree)
				}
				if n <= 3 {
					c.sample(s)
				}
			}
		}
	}
}

func signClass(off int) string {
	switch {
	case off < 0 && off%60 != 0:
		return "-negative-fractional"
	case off < 0:
		return "-negative"
	case off%60 != 0:
		return "-positive-fractional"
	case off == 0:
		return "-zero"
	}
	return "-positive"
}

func clip(s string, n int) string {
	if len(s) > n {
		return s[:n] + "…"
	}
	return s
}

func init() {
	monitors["C06"] = monC06
	monitors["C12"] = monC12
}
