package main

import (
	"bytes"
	"context"
	"encoding/hex"
	"fmt"
	"os"
	"os/exec"
	"path/filepath"
	"sort"
	"strings"
	"time"

	va "github.com/JunNishimura/Goit/verifapi"

	"verif/harness/gitfmt"
)

type c19Repo struct {
	w, root string
	files   map[string][]byte // relative to root -> valid content
	objects []string          // ids
}

func (c *runCtx) goitRun(dir string, args ...string) (string, int) {
	ctx, cancel := context.WithTimeout(context.Background(), 30*time.Second)
	defer cancel()
	cmd := exec.CommandContext(ctx, c.goit, args...)
	cmd.Dir = dir
	cmd.Env = []string{"HOME=" + os.Getenv("HOME"), "NO_COLOR=1", "TZ=UTC"}
	if d := os.Getenv("GOCOVERDIR"); d != "" {
		cmd.Env = append(cmd.Env, "GOCOVERDIR="+d) // tools/coverage.sh only
	}
	out, err := cmd.CombinedOutput()
	code := 0
	if ctx.Err() != nil {
		return string(out) + "\nfatal error: (harness) command did not finish within 30 s and was killed", 124
	}
	if err != nil {
		code = 1
		if ee, ok := err.(*exec.ExitError); ok {
			code = ee.ExitCode()
		}
	}
	return string(out), code
}

// buildCorpus lets Goit itself produce valid files of every kind.
func (c *runCtx) buildCorpus() *c19Repo {
	w := filepath.Join(c.work, "corpus")
	os.RemoveAll(w)
	os.MkdirAll(w, 0o777)
	r := &c19Repo{w: w, root: filepath.Join(w, ".goit"), files: map[string][]byte{}}
	wr := func(p, s string) {
		os.MkdirAll(filepath.Dir(filepath.Join(w, p)), 0o777)
		os.WriteFile(filepath.Join(w, p), []byte(s), 0o666)
	}
	c.goitRun(w, "init")
	c.goitRun(w, "config", "user.name", "Cor Pus")
	c.goitRun(w, "config", "user.email", "c@example.com")
	c.goitRun(w, "config", "--global", "core.editor", "vi = x")
	wr("a.txt", "hello\n")
	wr("dir/b c.txt", "with space\n")
	wr("dir/sub/d.go", "package d\n")
	wr("dir.c", "sibling\n")
	wr("lib/x.c", "int x;\n") // sibling directories: one tree with several sub-trees
	wr("lib2/y.c", "int y;\n")
	wr("lib2/inc/y.h", "extern int y;\n")
	wr(".goitignore", "build/\n*.log\n")
	c.goitRun(w, "add", "a.txt", "dir", "dir.c", "lib", "lib2", ".goitignore")
	c.goitRun(w, "commit", "-m", "first: commit\twith tab")
	wr("a.txt", "hello again\n")
	c.goitRun(w, "add", "a.txt")
	c.goitRun(w, "commit", "-m", "second\n\nbody line with three words")
	c.goitRun(w, "switch", "-c", "dev")
	c.goitRun(w, "branch", "-r", "feature")
	wr("e", "")
	c.goitRun(w, "add", "e")
	c.goitRun(w, "commit", "-m", "third")
	c.goitRun(w, "reset", "--soft", "HEAD@{1}")
	filepath.Walk(r.root, func(p string, fi os.FileInfo, err error) error {
		if err == nil && fi.Mode().IsRegular() {
			rel, _ := filepath.Rel(r.root, p)
			b, _ := os.ReadFile(p)
			r.files[rel] = b
			parts := strings.Split(rel, string(filepath.Separator))
			if len(parts) == 3 && parts[0] == "objects" {
				r.objects = append(r.objects, parts[1]+parts[2])
			}
		}
		return nil
	})
	sort.Strings(r.objects)
	return r
}

type mutation struct {
	kind string
	data []byte
}

// mutations yields truncations, single-byte deletions and substitutions of b.
func (c *runCtx) mutations(b []byte, f func(m mutation)) {
	n := len(b)
	step := 1
	if n > 4096 {
		step = n / 2048
	}
	for l := 0; l < n; l += step {
		f(mutation{"truncate", append([]byte{}, b[:l]...)})
	}
	for i := 0; i < n; i += step {
		d := append(append([]byte{}, b[:i]...), b[i+1:]...)
		f(mutation{"delete", d})
	}
	// insertions lengthen fields (digit runs overflow numbers, "[]" is the shortest section line) and repeat parts
	istep := step
	if n > 256 {
		istep = step * (n / 128)
	}
	for i := 0; i <= n; i += istep {
		for k := 0; k < c.pick(2, 4); k++ {
			tok := insertDict[c.rng.IntN(len(insertDict))]
			d := append(append(append([]byte{}, b[:i]...), tok...), b[i:]...)
			f(mutation{"insert", d})
		}
		if i < n {
			j := i + 1 + c.rng.IntN(min(n-i, 64))
			d := append(append(append([]byte{}, b[:j]...), b[i:j]...), b[j:]...)
			f(mutation{"duplicate", d})
		}
	}
	all := n <= 512 && c.thorough()
	for i := 0; i < n; i += step {
		if all {
			for v := 0; v < 256; v++ {
				if byte(v) == b[i] {
					continue
				}
				d := append([]byte{}, b...)
				d[i] = byte(v)
				f(mutation{"substitute", d})
			}
		} else {
			k := c.pick(4, 8)
			for j := 0; j < k; j++ {
				d := append([]byte{}, b...)
				v := byte(c.rng.IntN(256))
				if j == 0 {
					v = b[i] ^ (1 << uint(c.rng.IntN(8))) // bit flip
				}
				if v == b[i] {
					v++
				}
				d[i] = v
				f(mutation{"substitute", d})
			}
		}
	}
}

var insertDict = []string{"99999999999999999999999", "\n", "\n\n", " ", "\x00", "[]\n", "[", "]", "\t", "=", "<", ">", "+", "-", "0", "/", "..", "\n[]\n", "\xff", "parent " + strings.Repeat("0", 40) + "\n", "100644 x\x00" + strings.Repeat("\x01", 20), "ref: refs/heads/"}

var dict = []string{"DIRC", "ref: refs/heads/", "[user]", "040000 ", "100644 ", strings.Repeat("a", 40), "\t", ": ", "tree ", "parent ", "author ", "commit 10\x00", "blob 0\x00", "\x00", "\n", " <a@b.cc> 1 +0000", "=", "[", "]", "HEAD@{1}", strings.Repeat("0", 40)}

func (c *runCtx) randomBytes() []byte {
	n := c.rng.IntN(200)
	var b []byte
	for len(b) < n {
		if c.rng.IntN(3) == 0 {
			b = append(b, dict[c.rng.IntN(len(dict))]...)
		} else {
			b = append(b, byte(c.rng.IntN(256)))
		}
	}
	return b
}

// call runs one decoder call under the panic / cpu / allocation guards.
func (c *runCtx) call(decoder, mkind string, inSize int, what func() string, f func() string) {
	c.res.Evals++
	c.oracle("C19.panic")
	t0 := time.Now()
	a0 := totalAlloc()
	cpu0 := int64(-1)
	outcome := "error"
	panicked := c.guarded("C19.panic", decoder, what, func() { outcome = f() })
	if panicked {
		outcome = "panic"
	}
	a1 := totalAlloc()
	c.oracle("C19.alloc")
	bound := uint64(64<<20) + 2000*uint64(inSize)
	if a1-a0 > bound {
		c.fail("C19.alloc", "allocation-over-bound", decoder, "%s allocated %d bytes for an input of %d bytes (bound %d)", what(), a1-a0, inSize, bound)
	}
	c.oracle("C19.cpu")
	if d := time.Since(t0); d > 2*time.Second {
		_ = cpu0
		c.fail("C19.cpu", "slow-call", decoder, "%s took %v", what(), d)
	}
	c.class(decoder + "|" + mkind + "|" + outcome)
}

func (c *runCtx) restoreFile(r *c19Repo, rel string) {
	os.WriteFile(filepath.Join(r.root, rel), r.files[rel], 0o666)
}

func copyTree(src, dst string) {
	filepath.Walk(src, func(p string, fi os.FileInfo, err error) error {
		if err != nil {
			return nil
		}
		rel, _ := filepath.Rel(src, p)
		t := filepath.Join(dst, rel)
		if fi.IsDir() {
			os.MkdirAll(t, 0o777)
		} else if fi.Mode().IsRegular() {
			if b, err := os.ReadFile(p); err == nil {
				os.WriteFile(t, b, 0o666)
			}
		}
		return nil
	})
}

// flipHex changes the hex digit at position i of id.
func flipHex(id string, i int) string {
	b := []byte(id)
	if b[i] == 'f' {
		b[i] = '0'
	} else if b[i] == '9' {
		b[i] = 'a'
	} else {
		b[i]++
	}
	return string(b)
}

func hexClip(b []byte) string {
	if len(b) > 48 {
		return hex.EncodeToString(b[:48]) + "…"
	}
	return hex.EncodeToString(b)
}

func monC19(c *runCtx) {
	if c.goit == "" {
		c.res.Notes = append(c.res.Notes, "no goit binary: C19 skipped")
		return
	}
	r := c.buildCorpus()
	if len(r.objects) < 6 {
		c.res.Notes = append(c.res.Notes, fmt.Sprintf("corpus too small (%d objects)", len(r.objects)))
		return
	}
	caseNo := 0
	mine := func() bool { caseNo++; return caseNo%c.of == c.shard }
	head, _ := va.NewHead(r.root)
	refs, _ := va.NewRefs(r.root)

	// ---- object files: raw mutations -> GetObject (wrong-content oracle)
	for _, id := range r.objects {
		rel := filepath.Join("objects", id[:2], id[2:])
		valid := r.files[rel]
		h, _ := hex.DecodeString(id)
		getObj := func(mk string, data []byte) {
			os.WriteFile(filepath.Join(r.root, rel), data, 0o666)
			c.note("C19 GetObject id=%s mutation=%s bytes=%s", id, mk, hexClip(data))
			c.call("GetObject", mk, len(data), func() string { return fmt.Sprintf("GetObject(%s) on %s file %s", id[:7], mk, hexClip(data)) }, func() string {
				o, err := va.GetObject(r.root, va.SHA1(h))
				if err != nil {
					return "error"
				}
				c.oracle("C19.wrong-content")
				if got := gitfmt.ObjectID(o.Type.String(), o.Data); got != id {
					c.fail("C19.wrong-content", "damaged-object-returned", "GetObject|"+mk, "GetObject(%s) on a %s file returned %s/%d bytes whose id is %s", id, mk, o.Type, len(o.Data), got)
					return "loaded-different"
				}
				return "loaded-equal"
			})
		}
		getObj("valid", valid)
		c.mutations(valid, func(m mutation) {
			if mine() {
				getObj(m.kind, m.data)
			}
		})
		// swapped: every other valid object file stored under this name
		for _, other := range r.objects {
			if other != id && mine() {
				getObj("swap", r.files[filepath.Join("objects", other[:2], other[2:])])
			}
		}
		c.restoreFile(r, rel)
		// misplaced: the valid file under an id that differs from its own only in the fan-out byte (objects/<xx>/ is part
		// of the name) or only in the last byte
		for _, wrong := range []string{flipHex(id, 0), flipHex(id, 1), "00" + id[2:], "ff" + id[2:], flipHex(id, 39)} {
			if wrong == id || !mine() {
				continue
			}
			wp := filepath.Join(r.root, "objects", wrong[:2], wrong[2:])
			if _, err := os.Stat(wp); err == nil {
				continue // another valid object lives there
			}
			os.MkdirAll(filepath.Dir(wp), 0o777)
			os.WriteFile(wp, valid, 0o666)
			wh, _ := hex.DecodeString(wrong)
			c.note("C19 GetObject misplaced id=%s real=%s", wrong, id)
			c.call("GetObject", "misplaced", len(valid), func() string { return fmt.Sprintf("GetObject(%s) on the valid file of %s", wrong, id) }, func() string {
				o, err := va.GetObject(r.root, va.SHA1(wh))
				if err != nil {
					return "error"
				}
				c.oracle("C19.wrong-content")
				if got := gitfmt.ObjectID(o.Type.String(), o.Data); got != wrong {
					c.fail("C19.wrong-content", "damaged-object-returned", "GetObject|misplaced", "GetObject(%s) returned the content of %s (%s/%d bytes), stored under the wrong name", wrong, got, o.Type, len(o.Data))
					return "loaded-different"
				}
				return "loaded-equal"
			})
			os.Remove(wp)
			os.Remove(filepath.Dir(wp)) // only if empty
		}
		// mutations of the INFLATED content: re-deflated for GetObject, and fed directly to the parsers
		dec, err := gitfmt.DecodeObjectFile(valid)
		if err != nil {
			continue
		}
		hdr := []byte(fmt.Sprintf("%s %d\x00", dec.Kind, len(dec.Body)))
		content := append(append([]byte{}, hdr...), dec.Body...)
		c.mutations(content, func(m mutation) {
			if !mine() {
				return
			}
			getObj("inflated-"+m.kind, gitfmt.DeflateRaw(m.data))
		})
		c.restoreFile(r, rel)
		c.mutations(dec.Body, func(m mutation) {
			if !mine() {
				return
			}
			body := m.data
			switch dec.Kind {
			case "tree":
				c.note("C19 NewTree body=%s", hexClip(body))
				c.call("NewTree", m.kind, len(body), func() string { return "NewTree on body " + hexClip(body) }, func() string {
					o, _ := va.NewObject(va.TreeObject, body)
					t, err := va.NewTree(r.root, o)
					if err != nil {
						return "error"
					}
					_ = t.String()
					va.GetNode(t.Children, "dir/sub/d.go")
					return "loaded"
				})
			case "commit":
				c.note("C19 NewCommit body=%q", body)
				c.call("NewCommit", m.kind, len(body), func() string { return fmt.Sprintf("NewCommit on body %q", clip(string(body), 120)) }, func() string {
					o, _ := va.NewObject(va.CommitObject, body)
					cm, err := va.NewCommit(o)
					if err != nil {
						return "error"
					}
					_ = cm.String()
					return "loaded"
				})
			}
		})
	}
	// ---- the other files
	type target struct {
		rel  string
		name string
		load func() string
	}
	homeCfg := filepath.Join(os.Getenv("HOME"), ".goitconfig")
	validGlobal, _ := os.ReadFile(homeCfg)
	targets := []target{
		{"index", "NewIndex", func() string {
			ix, err := va.NewIndex(r.root)
			if err != nil {
				return "error"
			}
			ix.GetEntry([]byte("a.txt"))
			ix.IsRegisteredAsDirectory("dir")
			return "loaded"
		}},
		{"HEAD", "NewHead", func() string {
			h, err := va.NewHead(r.root)
			if err != nil {
				return "error"
			}
			_ = h.Reference
			return "loaded"
		}},
		{filepath.Join("refs", "heads", "feature"), "NewRefs", func() string {
			rf, err := va.NewRefs(r.root)
			if err != nil {
				return "error"
			}
			rf.IsBranchExist("feature")
			if _, err := va.NewHead(r.root); err != nil {
				return "loaded-head-error"
			}
			return "loaded"
		}},
		{"config", "NewConfig", func() string {
			cf, err := va.NewConfig(r.root)
			if err != nil {
				return "error"
			}
			cf.IsUserSet()
			cf.GetUserName()
			cf.GetEmail()
			return "loaded"
		}},
		{filepath.Join("logs", "HEAD"), "NewReflog", func() string {
			rl, err := va.NewReflog(r.root, head, refs)
			if err != nil {
				return "error"
			}
			for i := 0; i < 8; i++ {
				rl.GetRecord(i)
			}
			rl.Show()
			return "loaded"
		}},
	}
	for _, t := range targets {
		valid, ok := r.files[t.rel]
		if !ok {
			c.res.Notes = append(c.res.Notes, "corpus lacks "+t.rel)
			continue
		}
		run := func(mk string, data []byte) {
			os.WriteFile(filepath.Join(r.root, t.rel), data, 0o666)
			c.note("C19 %s mutation=%s bytes=%s", t.name, mk, hexClip(data))
			c.call(t.name, mk, len(data), func() string { return fmt.Sprintf("%s on %s %s = %q", t.name, mk, t.rel, clip(string(data), 160)) }, t.load)
		}
		run("valid", valid)
		c.mutations(valid, func(m mutation) {
			if mine() {
				run(m.kind, m.data)
			}
		})
		for i := 0; i < c.pick(300, 6000); i++ {
			b := c.randomBytes()
			if mine() {
				run("random", b)
			}
		}
		c.restoreFile(r, t.rel)
	}
	// global config and the ignore file
	extra := []struct {
		path, name string
		valid      []byte
		load       func() string
	}{
		{homeCfg, "NewConfig(global)", validGlobal, func() string {
			if _, err := va.NewConfig(r.root); err != nil {
				return "error"
			}
			return "loaded"
		}},
		{filepath.Join(r.w, ".goitignore"), "NewIgnore", []byte("build/\n*.log\n"), func() string {
			ig, err := va.NewIgnore(r.root)
			if err != nil {
				return "error"
			}
			ix, _ := va.NewIndex(r.root)
			ig.IsIncluded("build/x", ix)
			ig.IsIncluded("a.log", ix)
			ig.IsIncluded("a(b", ix)
			return "loaded"
		}},
	}
	// the two configuration files go through one loader: the same bytes are refused, or accepted, in both places
	{
		localPath := filepath.Join(r.root, "config")
		validLocal := r.files["config"]
		probe := func(mk string, data []byte) {
			os.WriteFile(localPath, data, 0o666)
			os.WriteFile(homeCfg, validGlobal, 0o666)
			_, errL := va.NewConfig(r.root)
			os.WriteFile(localPath, validLocal, 0o666)
			os.WriteFile(homeCfg, data, 0o666)
			_, errG := va.NewConfig(r.root)
			os.WriteFile(homeCfg, validGlobal, 0o666)
			c.res.Evals++
			c.oracle("C19.config-scopes-agree")
			if (errL == nil) != (errG == nil) {
				c.fail("C19.config-scopes-agree", "refused-in-one-scope-only", "NewConfig|"+mk, "the bytes %q as .goit/config: %v; as ~/.goitconfig: %v (a damaged file is either loaded or reported, wherever it lies)", clip(string(data), 120), errL, errG)
			}
		}
		c.mutations(validGlobal, func(m mutation) {
			if mine() {
				probe(m.kind, m.data)
			}
		})
		for i := 0; i < c.pick(200, 3000); i++ {
			b := c.randomBytes()
			if mine() {
				probe("random", b)
			}
		}
	}
	cwd, _ := os.Getwd()
	os.Chdir(r.w)
	for _, t := range extra {
		run := func(mk string, data []byte) {
			os.WriteFile(t.path, data, 0o666)
			c.note("C19 %s mutation=%s bytes=%s", t.name, mk, hexClip(data))
			c.call(t.name, mk, len(data), func() string { return fmt.Sprintf("%s on %s %q", t.name, mk, clip(string(data), 160)) }, t.load)
		}
		run("valid", t.valid)
		c.mutations(t.valid, func(m mutation) {
			if mine() {
				run(m.kind, m.data)
			}
		})
		for i := 0; i < c.pick(300, 6000); i++ {
			b := c.randomBytes()
			if mine() {
				run("random", b)
			}
		}
		os.WriteFile(t.path, t.valid, 0o666)
	}
	os.Chdir(cwd)
	// ReadHash / GetObject on arbitrary ids
	for i := 0; i < c.pick(300, 5000); i++ {
		if !mine() {
			continue
		}
		s := string(c.randomBytes())
		c.note("C19 ReadHash %q", s)
		c.call("ReadHash", "random", len(s), func() string { return fmt.Sprintf("ReadHash(%q)", clip(s, 80)) }, func() string {
			h, err := va.ReadHash(s)
			if err != nil {
				return "error"
			}
			if len(h) != 20 {
				// an id that is not 20 bytes must not reach the object store
				if _, err := va.GetObject(r.root, h); err == nil {
					return "loaded-odd"
				}
			}
			return "loaded"
		})
		b := []byte(s)
		if len(b) > 25 {
			b = b[:c.rng.IntN(25)]
		}
		c.call("GetObject(id)", "random-id", len(b), func() string { return fmt.Sprintf("GetObject(id=%x)", b) }, func() string {
			if _, err := va.GetObject(r.root, va.SHA1(b)); err != nil {
				return "error"
			}
			return "loaded"
		})
	}
	// ---- CLI level: commands on mutated repositories must not crash
	cliFiles := []string{"index", "HEAD", filepath.Join("refs", "heads", "feature"), filepath.Join("refs", "heads", "main"), filepath.Join("refs", "heads", "main"), "config", filepath.Join("logs", "HEAD"), filepath.Join("logs", "refs", "heads", "main")}
	for _, id := range r.objects {
		cliFiles = append(cliFiles, filepath.Join("objects", id[:2], id[2:]))
	}
	cmds := [][]string{{"status"}, {"ls-files", "-s"}, {"log"}, {"reflog"}, {"rev-parse", "HEAD"}, {"cat-file", "-p", r.objects[0]}, {"cat-file", "-t", r.objects[len(r.objects)-1]}, {"branch", "--list"}, {"write-tree"}}
	// modifying commands run on a throw-away copy of the (damaged) repository
	modCmds := [][]string{{"branch", "-d", "main"}, {"switch", "main"}, {"add", "a.txt"}, {"rm", "a.txt"}, {"commit", "-m", "x"}, {"reset", "--soft", "HEAD@{1}"}, {"reset", "--hard", "HEAD@{0}"},
		{"restore", "a.txt"}, {"restore", "--staged", "a.txt"}, {"config", "user.name", "x"}, {"branch", "newb"}, {"branch", "-r", "ren"}, {"switch", "-c", "cnew"}, {"update-ref", "refs/heads/main", r.objects[0]}}
	ncli := c.pick(2400, 12000) / c.of
	for i := 0; i < ncli; i++ {
		rel := cliFiles[c.rng.IntN(len(cliFiles))]
		valid := r.files[rel]
		var data []byte
		mk := ""
		switch c.rng.IntN(4) {
		case 0:
			mk = "truncate"
			if len(valid) > 0 {
				data = valid[:c.rng.IntN(len(valid))]
			}
		case 1:
			mk = "substitute"
			data = append([]byte{}, valid...)
			if len(data) > 0 {
				data[c.rng.IntN(len(data))] ^= byte(1 + c.rng.IntN(255))
			}
		case 2:
			mk = "random"
			data = c.randomBytes()
		default:
			mk = "delete"
			if len(valid) > 0 {
				p := c.rng.IntN(len(valid))
				data = append(append([]byte{}, valid[:p]...), valid[p+1:]...)
			}
		}
		if strings.HasPrefix(rel, "objects") && mk != "random" && c.rng.IntN(2) == 0 {
			// mutate the inflated content instead, so that the parsers behind the checksum are reached
			if dec, err := gitfmt.DecodeObjectFile(valid); err == nil && len(dec.Body) > 0 {
				b := append([]byte{}, dec.Body...)
				b[c.rng.IntN(len(b))] ^= byte(1 + c.rng.IntN(255))
				data = gitfmt.EncodeObjectFile(dec.Kind, b)
				mk = "inflated-substitute"
			}
		}
		os.WriteFile(filepath.Join(r.root, rel), data, 0o666)
		cmd := cmds[c.rng.IntN(len(cmds))]
		runDir := r.w
		if c.rng.IntN(3) == 0 {
			cmd = modCmds[c.rng.IntN(len(modCmds))]
			runDir = filepath.Join(c.work, "clicopy")
			os.RemoveAll(runDir)
			copyTree(r.w, runDir)
		}
		c.note("C19 cli %v with %s %s = %s", cmd, mk, rel, hexClip(data))
		out, code := c.goitRun(runDir, cmd...)
		c.res.Evals++
		c.oracle("C19.cli")
		fileClass := rel
		if strings.HasPrefix(rel, "objects") {
			fileClass = "object"
		}
		c.class("cli|" + cmd[0] + "|" + fileClass + "|" + mk)
		if strings.Contains(out, "panic: ") || strings.Contains(out, "goroutine 1 [") || strings.Contains(out, "fatal error: ") || (code != 0 && code != 1) {
			line := ""
			for _, ln := range strings.Split(out, "\n") {
				if strings.HasPrefix(ln, "panic:") || strings.HasPrefix(ln, "fatal error:") {
					line = ln
				}
			}
			c.fail("C19.cli", panicClass(line), cmd[0]+"|"+fileClass, "goit %v crashed (exit %d) with %s %s = %s: %s", cmd, code, mk, rel, hexClip(data), line)
		}
		c.restoreFile(r, rel)
	}
	c.craftedC19(r, mine, cmds, modCmds)
	if c.shard == 0 {
		c.sample(fmt.Sprintf("corpus: %d objects + index, HEAD, branch, config, logs/HEAD, .goitconfig, .goitignore; e.g. object %s", len(r.objects), r.objects[0]))
	}
	_ = bytes.Equal
}

func init() { monitors["C19"] = monC19 }
