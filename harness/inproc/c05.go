package main

import (
	"bytes"
	"encoding/hex"
	"fmt"
	"os"
	"os/exec"
	"path/filepath"
	"sort"
	"strings"

	va "github.com/JunNishimura/Goit/verifapi"

	"verif/harness/gen"
)

func flattenNodes(prefix string, nodes []*va.Node, out map[string]string) {
	for _, n := range nodes {
		p := n.Name
		if prefix != "" {
			p = prefix + "/" + n.Name
		}
		if len(n.Children) == 0 {
			out[p] = hex.EncodeToString(n.Hash)
		} else {
			flattenNodes(p, n.Children, out)
		}
	}
}

// C05 (b): trees whose blob ids contain chosen bytes, written by the real `goit write-tree`
// from an index built through the real Index.Update, read back through GetObject+NewTree.
func monC05(c *runCtx) {
	if c.goit == "" {
		c.res.Notes = append(c.res.Notes, "no goit binary given: C05 in-process part skipped")
		return
	}
	n := c.pick(4000, 60000) / c.of
	specials := []byte{0x00, 0x20, 0x0a}
	for i := 0; i < n; i++ {
		w := filepath.Join(c.work, "r")
		os.RemoveAll(w)
		root := filepath.Join(w, ".goit")
		os.MkdirAll(filepath.Join(root, "objects"), 0o777)
		names := gen.NameSet(c.rng, gen.NameOpts{Space: true, NonASCII: i%3 == 0, MaxDepth: 4, N: 2 + c.rng.IntN(6)})
		if i%40 == 7 {
			// a directory whose tree object is larger than 4 KiB
			n := 105 + c.rng.IntN(80)
			for j := 0; j < n; j++ {
				names = append(names, fmt.Sprintf("bigdir/e%03d%s", j, strings.Repeat("q", (j*5+i)%27)))
			}
		}
		want := map[string]string{}
		idClass := "random"
		// systematic part: case i puts special byte specials[i%3] at position (i/3)%20 of the first id
		var ix *va.Index
		var err error
		bad := c.guarded("C05.newtree-ids", "build", "NewIndex/Update", func() {
			ix, err = va.NewIndex(root)
			if err != nil {
				return
			}
			for j, p := range names {
				id := make([]byte, 20)
				for k := range id {
					id[k] = byte(1 + c.rng.IntN(255))
				}
				switch {
				case j == 0:
					pos := (i / 3) % 20
					id[pos] = specials[i%3]
					idClass = fmt.Sprintf("special-%02x-at-%d", specials[i%3], pos)
				case j == 1 && i%7 == 0:
					id = make([]byte, 20) // all-zero id
				case j == 2 && i%5 == 0:
					for k := range id {
						id[k] = specials[c.rng.IntN(3)]
					}
				}
				want[p] = hex.EncodeToString(id)
				if _, err = ix.Update(root, va.SHA1(id), []byte(p)); err != nil {
					return
				}
			}
		})
		if bad || err != nil {
			if err != nil {
				c.fail("C05.newtree-ids", "build-error", "build", "building index: %v", err)
			}
			continue
		}
		c.res.Evals++
		c.note("C05 case %d names=%q ids=%v", i, names, want)
		cmd := exec.Command(c.goit, "write-tree")
		cmd.Dir = w
		cmd.Env = []string{"HOME=" + filepath.Join(c.work, "home"), "NO_COLOR=1", "TZ=UTC"}
		out, xerr := cmd.Output()
		treeHex := strings.TrimSpace(string(out))
		trig := idClass
		if xerr != nil || len(treeHex) != 40 {
			c.fail("C05.newtree-ids", "write-tree-failed", trig, "goit write-tree failed on names %q: %v %q", names, xerr, clip(string(out), 200))
			continue
		}
		h, _ := hex.DecodeString(treeHex)
		var tree *va.Tree
		if c.guarded("C05.newtree-ids", trig, func() string { return fmt.Sprintf("GetObject+NewTree on tree of %q", names) }, func() {
			var o *va.Object
			o, err = va.GetObject(root, va.SHA1(h))
			if err == nil {
				tree, err = va.NewTree(root, o)
			}
		}) {
			continue
		}
		c.oracle("C05.newtree-ids")
		if err != nil {
			c.fail("C05.newtree-ids", "newtree-error", trig, "reading back the tree written for %q (%v): %v", names, want, err)
			continue
		}
		got := map[string]string{}
		flattenNodes("", tree.Children, got)
		if d := diffStr(want, got); d != "" {
			sym := "readback-differs"
			for p := range want {
				if _, ok := got[p]; !ok && strings.Contains(p, " ") {
					sym = "name-truncated-at-space"
				}
			}
			c.fail("C05.newtree-ids", sym, trig, "tree written from index %v reads back differently: %s", want, d)
		}
		shape := "flat"
		for _, p := range names {
			if strings.Contains(p, "/") {
				shape = "nested"
			}
		}
		c.class(fmt.Sprintf("%s|%s|space%v", idClass, shape, strings.Contains(strings.Join(names, ""), " ")))
		if i < 2 {
			c.sample(fmt.Sprintf("names=%q idClass=%s tree=%s", names, idClass, treeHex))
		}
	}
}

func diffStr(a, b map[string]string) string {
	var out []string
	keys := make([]string, 0, len(a))
	for k := range a {
		keys = append(keys, k)
	}
	sort.Strings(keys)
	for _, k := range keys {
		if v, ok := b[k]; !ok {
			out = append(out, fmt.Sprintf("missing %q", k))
		} else if v != a[k] {
			out = append(out, fmt.Sprintf("%q: id %s != %s", k, v, a[k]))
		}
	}
	for k := range b {
		if _, ok := a[k]; !ok {
			out = append(out, fmt.Sprintf("extra %q", k))
		}
	}
	if len(out) > 5 {
		out = out[:5]
	}
	return strings.Join(out, "; ")
}

var _ = bytes.Equal

func init() { monitors["C05"] = monC05 }
