package main

import (
	"encoding/hex"
	"fmt"
	"os"
	"path/filepath"
	"sort"
	"strings"

	va "github.com/JunNishimura/Goit/verifapi"

	"verif/harness/gitfmt"
)

// Well-formed files that say something no Goit command would have written: correctly named objects of the
// wrong kind behind a reference, references to objects that are not there, histories with two parents,
// trees with odd modes / names / order, staging-area files with odd paths. "Whatever bytes are found" in C19
// includes these; byte-level damage never reaches the code behind the checksum comparison with them.

type craftState struct {
	name  string
	apply func(root string) // edits a private copy of the corpus repository
}

func putObject(root, kind string, body []byte) string {
	id := gitfmt.ObjectID(kind, body)
	dir := filepath.Join(root, "objects", id[:2])
	os.MkdirAll(dir, 0o777)
	os.WriteFile(filepath.Join(dir, id[2:]), gitfmt.EncodeObjectFile(kind, body), 0o666)
	return id
}

type tent struct{ mode, name, id string }

func treeBody(es ...tent) []byte {
	var b []byte
	for _, e := range es {
		raw, _ := hex.DecodeString(e.id)
		b = append(b, (e.mode + " " + e.name + "\x00")...)
		b = append(b, raw...)
	}
	return b
}

func commitBody(tree string, parents []string, msg string) []byte {
	s := "tree " + tree + "\n"
	for _, p := range parents {
		s += "parent " + p + "\n"
	}
	s += "author Cor Pus <c@example.com> 1700000000 +0000\ncommitter Cor Pus <c@example.com> 1700000000 +0000\n\n" + msg + "\n"
	return []byte(s)
}

func (c *runCtx) craftedStates(r *c19Repo) []craftState {
	var blob, tree, commit, parent string
	for _, id := range r.objects {
		dec, err := gitfmt.DecodeObjectFile(r.files[filepath.Join("objects", id[:2], id[2:])])
		if err != nil {
			continue
		}
		switch dec.Kind {
		case "blob":
			if blob == "" && len(dec.Body) > 0 {
				blob = id
			}
		case "tree":
			if tree == "" {
				tree = id
			}
		case "commit":
			if cm, err := gitfmt.ParseCommit(dec.Body); err == nil {
				if len(cm.Parents) == 0 {
					parent = id
				} else if commit == "" {
					commit = id
				}
			}
		}
	}
	if blob == "" || tree == "" || commit == "" || parent == "" {
		c.res.Notes = append(c.res.Notes, "crafted states: corpus lacks a blob, tree, root commit or child commit")
		return nil
	}
	missing := strings.Repeat("5a", 20)
	setBranch := func(root, br, content string) {
		os.WriteFile(filepath.Join(root, "refs", "heads", br), []byte(content), 0o666)
	}
	// the corpus HEAD names "feature"; both it and main are pointed at the crafted commit
	point := func(root, id string) {
		setBranch(root, "feature", id)
		setBranch(root, "main", id)
	}
	var out []craftState
	add := func(name string, f func(root string)) { out = append(out, craftState{name, f}) }
	for _, t := range []struct{ n, id string }{{"blob", blob}, {"commit", commit}, {"missing", missing}, {"zero", strings.Repeat("0", 40)}} {
		t := t
		add("commit.tree-is-"+t.n, func(root string) {
			point(root, putObject(root, "commit", commitBody(t.id, []string{parent}, "crafted")))
		})
	}
	for _, t := range []struct{ n, id string }{{"blob", blob}, {"tree", tree}, {"missing", missing}, {"zero", strings.Repeat("0", 40)}} {
		t := t
		add("commit.parent-is-"+t.n, func(root string) { point(root, putObject(root, "commit", commitBody(tree, []string{t.id}, "crafted"))) })
	}
	add("commit.diamond", func(root string) {
		b := putObject(root, "commit", commitBody(tree, []string{parent}, "left"))
		cc := putObject(root, "commit", commitBody(tree, []string{parent}, "right"))
		point(root, putObject(root, "commit", commitBody(tree, []string{b, cc}, "merge")))
	})
	add("commit.same-parent-thrice", func(root string) {
		point(root, putObject(root, "commit", commitBody(tree, []string{parent, parent, parent}, "three")))
	})
	for n, body := range map[string]string{
		"no-author":       "tree " + tree + "\ncommitter Cor Pus <c@example.com> 1700000000 +0000\n\nm\n",
		"no-committer":    "tree " + tree + "\nauthor Cor Pus <c@example.com> 1700000000 +0000\n\nm\n",
		"no-blank-line":   "tree " + tree + "\nauthor Cor Pus <c@example.com> 1700000000 +0000\ncommitter Cor Pus <c@example.com> 1700000000 +0000\n",
		"no-message":      "tree " + tree + "\nauthor Cor Pus <c@example.com> 1700000000 +0000\ncommitter Cor Pus <c@example.com> 1700000000 +0000\n\n",
		"extra-header":    "tree " + tree + "\nauthor Cor Pus <c@example.com> 1700000000 +0000\ncommitter Cor Pus <c@example.com> 1700000000 +0000\ngpgsig -----BEGIN\n abc\n -----END\n\nm\n",
		"huge-time":       "tree " + tree + "\nauthor Cor Pus <c@example.com> 99999999999999999999999 +0000\ncommitter Cor Pus <c@example.com> 1700000000 +0000\n\nm\n",
		"odd-zone":        "tree " + tree + "\nauthor Cor Pus <c@example.com> 1700000000 +9999\ncommitter Cor Pus <c@example.com> 1700000000 -9999\n\nm\n",
		"tree-line-last":  "author Cor Pus <c@example.com> 1700000000 +0000\ncommitter Cor Pus <c@example.com> 1700000000 +0000\ntree " + tree + "\n\nm\n",
		"two-tree-lines":  "tree " + tree + "\ntree " + tree + "\nauthor Cor Pus <c@example.com> 1700000000 +0000\ncommitter Cor Pus <c@example.com> 1700000000 +0000\n\nm\n",
		"empty":           "",
		"only-newlines":   "\n\n\n",
		"header-no-value": "tree\nparent\nauthor\ncommitter\n\nm\n",
	} {
		body := body
		add("commit."+n, func(root string) { point(root, putObject(root, "commit", []byte(body))) })
	}
	trees := map[string][]tent{
		"dir-entry-is-blob":    {{"040000", "dir", blob}, {"100644", "a.txt", blob}},
		"file-entry-is-tree":   {{"100644", "a.txt", tree}},
		"file-entry-is-commit": {{"100644", "a.txt", commit}},
		"entry-missing":        {{"100644", "a.txt", missing}, {"040000", "dir", missing}},
		"duplicate-names":      {{"100644", "a.txt", blob}, {"100644", "a.txt", blob}},
		"file-and-dir-twice":   {{"040000", "dir", tree}, {"040000", "dir", tree}},
		"unsorted":             {{"100644", "z", blob}, {"100644", "m", blob}, {"100644", "a.txt", blob}},
		"name-with-slash":      {{"100644", "dir/x", blob}},
		"name-empty":           {{"100644", "", blob}},
		"name-dot":             {{"100644", ".", blob}},
		"name-dotdot":          {{"040000", "..", tree}},
		"name-goit":            {{"040000", ".goit", tree}},
		"mode-755":             {{"100755", "a.txt", blob}},
		"mode-symlink":         {{"120000", "a.txt", blob}},
		"mode-gitlink":         {{"160000", "a.txt", commit}},
		"mode-zero":            {{"0", "a.txt", blob}},
		"mode-empty":           {{"", "a.txt", blob}},
		"mode-short-dir":       {{"40000", "dir", tree}},
		"self-named-dir":       {{"040000", "a.txt", tree}, {"100644", "a.txt", blob}},
		"empty":                {},
	}
	for n, es := range trees {
		es := es
		add("tree."+n, func(root string) {
			t := putObject(root, "tree", treeBody(es...))
			point(root, putObject(root, "commit", commitBody(t, []string{parent}, "crafted tree")))
		})
	}
	add("treebomb.two-to-the-35", func(root string) {
		// 36 small, perfectly valid tree objects: every level lists the level below twice (2^35 directories in all)
		t := putObject(root, "tree", treeBody(tent{"100644", "f", blob}))
		for i := 0; i < 35; i++ {
			t = putObject(root, "tree", treeBody(tent{"040000", "a", t}, tent{"040000", "b", t}))
		}
		point(root, putObject(root, "commit", commitBody(t, []string{parent}, "bomb")))
	})
	add("tree.deep-chain", func(root string) {
		t := putObject(root, "tree", treeBody(tent{"100644", "f", blob}))
		for i := 0; i < 300; i++ {
			t = putObject(root, "tree", treeBody(tent{"040000", "d", t}))
		}
		point(root, putObject(root, "commit", commitBody(t, []string{parent}, "deep")))
	})
	for n, content := range map[string]string{
		"tree-id": tree, "blob-id": blob, "missing-id": missing, "zero-id": strings.Repeat("0", 40), "upper-hex": strings.ToUpper(commit),
		"id-newline": commit + "\n", "id-crlf": commit + "\r\n", "id-twice": commit + commit, "id-39": commit[:39], "id-space": commit + " ", "ref-line": "ref: refs/heads/main",
	} {
		content := content
		add("branch."+n, func(root string) { setBranch(root, "feature", content) })
		add("other-branch."+n, func(root string) { setBranch(root, "main", content) })
	}
	for n, content := range map[string]string{
		"empty-name": "ref: refs/heads/", "missing-branch": "ref: refs/heads/nonexistent", "detached": commit, "tags": "ref: refs/tags/v1", "nested": "ref: refs/heads/a/b",
		"dotdot": "ref: refs/heads/../../HEAD", "newline": "ref: refs/heads/feature\n", "two-lines": "ref: refs/heads/feature\nref: refs/heads/main", "no-prefix": "refs/heads/feature", "blank": " ",
	} {
		content := content
		add("HEAD."+n, func(root string) { os.WriteFile(filepath.Join(root, "HEAD"), []byte(content), 0o666) })
	}
	indexes := map[string][]gitfmt.IndexEntry{
		"blob-missing":    {{ID: missing, Path: "a.txt"}},
		"entry-is-tree":   {{ID: tree, Path: "a.txt"}},
		"entry-is-commit": {{ID: commit, Path: "a.txt"}},
		"double-slash":    {{ID: blob, Path: "dir//x"}},
		"absolute":        {{ID: blob, Path: "/abs"}},
		"empty-path":      {{ID: blob, Path: ""}},
		"trailing-slash":  {{ID: blob, Path: "dir/"}},
		"dot-path":        {{ID: blob, Path: "./a.txt"}},
		"dotdot-path":     {{ID: blob, Path: "../out"}},
		"unsorted":        {{ID: blob, Path: "z"}, {ID: blob, Path: "a.txt"}, {ID: blob, Path: "m"}},
		"unsorted-dir-2":  {{ID: blob, Path: "dir/z"}, {ID: blob, Path: "dir/c"}},
		"unsorted-dir-3":  {{ID: blob, Path: "dir/m"}, {ID: blob, Path: "dir/z"}, {ID: blob, Path: "dir/a"}},
		"unsorted-dir-4":  {{ID: blob, Path: "dir/b"}, {ID: blob, Path: "dir/a"}, {ID: blob, Path: "dir/d"}, {ID: blob, Path: "dir/c"}, {ID: blob, Path: "a.txt"}},
		"unsorted-last":   {{ID: blob, Path: "a.txt"}, {ID: blob, Path: "dir/x"}, {ID: blob, Path: "dir/b.txt"}},
		"duplicates":      {{ID: blob, Path: "a.txt"}, {ID: blob, Path: "a.txt"}},
		"file-and-dir":    {{ID: blob, Path: "a.txt"}, {ID: blob, Path: "a.txt/x"}},
		"goit-path":       {{ID: blob, Path: ".goit/HEAD"}},
		"none":            {},
	}
	for n, es := range indexes {
		es := es
		add("index."+n, func(root string) { os.WriteFile(filepath.Join(root, "index"), gitfmt.EncodeIndex(es), 0o666) })
	}
	// only files a healthy repository may lack (nothing staged yet, nothing logged yet, a branch named by HEAD
	// or by a log but not created yet); a repository without HEAD, config, refs/ or objects/ is not "bytes found
	// in a file" and is left out of the domain
	for _, rel := range []string{"index", filepath.Join("refs", "heads", "feature"), filepath.Join("refs", "heads", "main"), filepath.Join("logs", "HEAD"), filepath.Join("logs", "refs", "heads", "feature"), "logs"} {
		rel := rel
		add("removed."+rel, func(root string) { os.RemoveAll(filepath.Join(root, rel)) })
	}
	for _, id := range []string{blob, tree, commit, parent} {
		id := id
		add("object-removed."+craftKind(r, id), func(root string) { os.Remove(filepath.Join(root, "objects", id[:2], id[2:])) })
	}
	// two files damaged at once: the object files of two valid objects exchanged (both directions), e.g. two sibling
	// sub-trees; all pairs among trees and commits, the other pairs in the thorough tier
	kinds := map[string]string{}
	for _, id := range r.objects {
		kinds[id] = craftKind(r, id)
	}
	for i, a := range r.objects {
		for _, b := range r.objects[i+1:] {
			a, b := a, b
			if !c.thorough() && (kinds[a] == "blob" || kinds[b] == "blob") && (i+len(b))%5 != 0 {
				continue
			}
			add(fmt.Sprintf("swapped-pair.%s-%s.%s.%s", kinds[a], kinds[b], a[:6], b[:6]), func(root string) {
				pa, pb := filepath.Join(root, "objects", a[:2], a[2:]), filepath.Join(root, "objects", b[:2], b[2:])
				os.WriteFile(pa, r.files[filepath.Join("objects", b[:2], b[2:])], 0o666)
				os.WriteFile(pb, r.files[filepath.Join("objects", a[:2], a[2:])], 0o666)
			})
		}
	}
	// the states were partly built from maps: every shard must see them in the same order
	sort.Slice(out, func(i, j int) bool { return out[i].name < out[j].name })
	return out
}

func craftKind(r *c19Repo, id string) string {
	dec, err := gitfmt.DecodeObjectFile(r.files[filepath.Join("objects", id[:2], id[2:])])
	if err != nil {
		return "unknown"
	}
	if dec.Kind == "commit" {
		if cm, err := gitfmt.ParseCommit(dec.Body); err == nil && len(cm.Parents) == 0 {
			return "root-commit"
		}
	}
	return dec.Kind
}

func (c *runCtx) craftedC19(r *c19Repo, mine func() bool, cmds, modCmds [][]string) {
	states := c.craftedStates(r)
	stateDir := filepath.Join(c.work, "crafted")
	runDir := filepath.Join(c.work, "craftedcopy")
	for _, st := range states {
		if !mine() {
			continue
		}
		os.RemoveAll(stateDir)
		copyTree(r.w, stateDir)
		st.apply(filepath.Join(stateDir, ".goit"))
		// the loaders in-process first (a panic here names the state)
		root := filepath.Join(stateDir, ".goit")
		c.note("C19 crafted state %s: in-process loaders", st.name)
		c.call("loaders(crafted)", st.name, 1000, func() string { return "loaders on crafted state " + st.name }, func() string {
			h, err := va.NewHead(root)
			if err != nil {
				return "error"
			}
			rf, err := va.NewRefs(root)
			if err != nil {
				return "error"
			}
			if _, err := va.NewIndex(root); err != nil {
				return "error"
			}
			if rl, err := va.NewReflog(root, h, rf); err == nil {
				rl.Show()
			}
			return "loaded"
		})
		all := append(append([][]string{}, cmds...), modCmds...)
		all = append(all, []string{"log", "-n", "2"}, []string{"reset", "--mixed", "HEAD@{1}"}, []string{"restore", "."}, []string{"restore", "dir"}, []string{"restore", "--staged", "dir"}, []string{"add", "dir"}, []string{"restore", "--staged", "."}, []string{"add", "."}, []string{"rm", "dir"}, []string{"commit", "-m", "after crafted"})
		if strings.HasPrefix(st.name, "swapped-pair.") {
			// every object as a cat-file argument as well: the damaged ones are then decoded directly
			for _, id := range r.objects {
				if strings.Contains(st.name, id[:6]) {
					all = append(all, []string{"cat-file", "-p", id}, []string{"cat-file", "-t", id})
				}
			}
			for _, id := range r.objects {
				if k := craftKind(r, id); k == "tree" || k == "commit" {
					all = append(all, []string{"cat-file", "-p", id})
				}
			}
		}
		hangs := 0
		for i, cmd := range all {
			if hangs >= 2 {
				break // each hang costs its whole time limit; two witnesses per state are enough
			}
			dir := stateDir
			if i >= len(cmds) && cmd[0] != "cat-file" && cmd[0] != "log" {
				os.RemoveAll(runDir)
				copyTree(stateDir, runDir)
				dir = runDir
			}
			c.note("C19 cli %v on crafted state %s", cmd, st.name)
			out, code := c.goitRun(dir, cmd...)
			c.res.Evals++
			c.oracle("C19.cli")
			c.oracle("C19.crafted")
			kind := st.name
			if j := strings.Index(kind, "."); j > 0 {
				kind = kind[:j]
			}
			if code == 124 {
				hangs++
			}
			cls := st.name
			if strings.HasPrefix(cls, "swapped-pair.") {
				cls = strings.Join(strings.Split(cls, ".")[:2], ".")
			}
			c.class("crafted|" + cmd[0] + "|" + cls + "|" + fmt.Sprint(code))
			if strings.Contains(out, "panic: ") || strings.Contains(out, "goroutine 1 [") || strings.Contains(out, "fatal error: ") || (code != 0 && code != 1) {
				line := ""
				for _, ln := range strings.Split(out, "\n") {
					if strings.HasPrefix(ln, "panic:") || strings.HasPrefix(ln, "fatal error:") {
						line = ln
					}
				}
				c.fail("C19.cli", panicClass(line), cmd[0]+"|crafted:"+kind, "goit %v crashed (exit %d) on the crafted state %s: %s", cmd, code, st.name, line)
			}
		}
	}
	os.RemoveAll(stateDir)
	os.RemoveAll(runDir)
}
