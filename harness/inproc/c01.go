package main

import (
	"bytes"
	"fmt"
	"os"
	"path/filepath"

	va "github.com/JunNishimura/Goit/verifapi"

	"verif/harness/core"
	"verif/harness/gen"
	"verif/harness/gitfmt"
)

func kindOf(i int) (va.ObjectType, string) {
	switch i % 3 {
	case 0:
		return va.BlobObject, "blob"
	case 1:
		return va.TreeObject, "tree"
	}
	return va.CommitObject, "commit"
}

func sizeBucket(n int) string {
	switch {
	case n == 0:
		return "0"
	case n < 64:
		return "<64"
	case n < 4096:
		return "<4K"
	case n < 65536:
		return "<64K"
	case n < 1<<20:
		return "<1M"
	}
	return ">=1M"
}

func readObjectFile(root, id string) ([]byte, error) {
	return os.ReadFile(filepath.Join(root, "objects", id[:2], id[2:]))
}

// C01: content addressing and lossless round trip through the real NewObject/Write/GetObject.
func monC01(c *runCtx) {
	root := filepath.Join(c.work, "repo", ".goit")
	os.MkdirAll(filepath.Join(root, "objects"), 0o777)
	n := c.pick(2400, 12000) / c.of
	maxSize := 1 << 20
	if c.thorough() {
		maxSize = 16 << 20
	}
	type stored struct {
		id   string
		kind string
		body []byte
	}
	var keep []stored
	doCase := func(i int, kt va.ObjectType, kind string, body []byte, class string) {
		c.res.Evals++
		trig := kind + "|" + class
		c.note("C01 case %d kind=%s class=%s len=%d head=%q", i, kind, class, len(body), body[:min(len(body), 32)])
		if len(body) > 0 {
			c.class(fmt.Sprintf("%s|%s|%s", kind, class, sizeBucket(len(body))))
		}
		want := gitfmt.ObjectID(kind, body)
		var obj *va.Object
		var err error
		if c.guarded("C01.id", trig, "NewObject", func() { obj, err = va.NewObject(kt, append([]byte{}, body...)) }) {
			return
		}
		c.oracle("C01.id")
		if err != nil || obj == nil {
			c.fail("C01.id", "newobject-error", trig, "NewObject(%s, %d bytes): %v", kind, len(body), err)
			return
		}
		if obj.Hash.String() != want {
			c.fail("C01.id", "wrong-id", trig, "NewObject(%s, %d bytes %q…) id %s, SHA-1 of canonical encoding is %s", kind, len(body), body[:min(len(body), 16)], obj.Hash, want)
			return
		}
		if o2, _ := va.NewObject(kt, append([]byte{}, body...)); o2 == nil || o2.Hash.String() != want {
			c.fail("C01.id", "not-deterministic", trig, "second NewObject call gives another id")
		}
		if c.guarded("C01.file", trig, "Object.Write", func() { err = obj.Write(root) }) {
			return
		}
		c.oracle("C01.file")
		if err != nil {
			c.fail("C01.file", "write-error", trig, "Write: %v", err)
			return
		}
		raw, rerr := readObjectFile(root, want)
		if rerr != nil {
			c.fail("C01.file", "file-missing", trig, "after Write there is no objects/%s/%s: %v", want[:2], want[2:], rerr)
			return
		}
		dec, derr := gitfmt.DecodeObjectFile(raw)
		if derr != nil {
			c.fail("C01.file", "file-undecodable", trig, "stored file of %s does not decode: %v", want, derr)
			return
		}
		if dec.Kind != kind || !bytes.Equal(dec.Body, body) || dec.ContentID != want {
			c.fail("C01.file", "file-content-differs", trig, "stored file of %s decodes to %s/%d bytes (content id %s)", want, dec.Kind, len(dec.Body), dec.ContentID)
		}
		var got *va.Object
		if c.guarded("C01.roundtrip", trig, "GetObject", func() { got, err = va.GetObject(root, obj.Hash) }) {
			return
		}
		c.oracle("C01.roundtrip")
		if err != nil || got == nil {
			c.fail("C01.roundtrip", "getobject-error", trig, "GetObject(%s) (%s, %d bytes, %q…): %v", want, kind, len(body), body[:min(len(body), 16)], err)
			return
		}
		if got.Type != kt || got.Size != len(body) || !bytes.Equal(got.Data, body) {
			c.fail("C01.roundtrip", "read-differs", trig, "GetObject(%s) returns %s/%d/%d bytes, stored %s/%d", want, got.Type, got.Size, len(got.Data), kind, len(body))
		}
		// store again: what is stored under the id must not change
		c.oracle("C01.restore-idempotent")
		if err := obj.Write(root); err != nil {
			c.fail("C01.restore-idempotent", "rewrite-error", trig, "second Write: %v", err)
		}
		raw2, _ := readObjectFile(root, want)
		if d2, e2 := gitfmt.DecodeObjectFile(raw2); e2 != nil || d2.Kind != kind || !bytes.Equal(d2.Body, body) {
			c.fail("C01.restore-idempotent", "content-changed-by-restore", trig, "after storing %s again its file decodes differently: %v", want, e2)
		}
		if len(body) <= 4096 && len(keep) < 300 {
			keep = append(keep, stored{want, kind, body})
		}
		if i < 4 {
			c.sample(fmt.Sprintf("%s %d bytes class=%s -> %s", kind, len(body), class, want))
		}
	}
	idx := 0
	// every single-byte payload and all header look-alikes in thorough, a slice of them in quick
	if c.shard == 0 {
		step := 1
		if !c.thorough() {
			step = 8
		}
		for b := 0; b < 256; b += step {
			for ki := 0; ki < 3; ki++ {
				kt, kind := kindOf(ki)
				doCase(idx, kt, kind, []byte{byte(b)}, "single-byte")
				idx++
			}
		}
		for _, hl := range [][]byte{[]byte("blob 3\x00abc"), []byte("123"), []byte(" 5"), []byte("tree 0\x00"), []byte("0"), []byte("blob"), []byte("blob \x00"), {}} {
			for ki := 0; ki < 3; ki++ {
				kt, kind := kindOf(ki)
				doCase(idx, kt, kind, hl, "header-lookalike")
				idx++
			}
		}
	}
	if c.shard == 1%c.of {
		// large and extremely compressible payloads (ratio far beyond 100:1)
		big := [][]byte{make([]byte, 3<<20), bytes.Repeat([]byte("heartbeat ok\n"), 4<<20/13), bytes.Repeat([]byte{'a'}, 2<<20+1)}
		for bi, b := range big {
			kt, kind := kindOf(bi)
			doCase(idx, kt, kind, b, "huge-compressible")
			idx++
		}
	}
	// header lengths: the size field of "<kind> <n>\0" gains a digit at every power of ten (a reader that bounds the header
	// search works up to one of them): 10^d - 1 and 10^d bytes for every kind, d = 1..7 (8-digit sizes = 10 MB and more)
	for d := 1; d <= 7; d++ {
		n := 1
		for i := 0; i < d; i++ {
			n *= 10
		}
		for _, sz := range []int{n - 1, n} {
			for kk := 0; kk < 3; kk++ {
				idx++
				if idx%c.of != c.shard {
					continue
				}
				kt, kind := kindOf(kk)
				body := make([]byte, sz) // zeros compress to almost nothing: the size is the point, not the bytes
				if sz > 0 {
					body[sz-1] = byte(d)
				}
				doCase(idx, kt, kind, body, fmt.Sprintf("header-digits-%d", len(fmt.Sprint(sz))))
			}
		}
	}
	// boundaries of the ENCODED object ("<kind> <n>\0" + bytes) and of the COMPRESSED file: sizes that are exact multiples
	// of a block (512 B .. 1 MiB, thorough .. 8 MiB), one below and one above; chunked readers and writers lose or
	// refuse their last block exactly there
	caseNo := 0
	blocks := []int{512, 1024, 4096, 8192, 16384, 32768, 65536, 1 << 17, 1 << 18, 1 << 19, 1 << 20}
	for _, B := range blocks {
		for _, m := range []int{1, 2, 3} {
			total := B * m
			if total > maxSize*2 {
				continue
			}
			for _, d := range []int{-1, 0, 1} {
				caseNo++
				if caseNo%c.of != c.shard {
					continue
				}
				kt, kind := kindOf(caseNo % 3)
				if nb, ok := gitfmt.BodyLenForEncoded(kind, total+d); ok {
					body := core.RandBytes(fmt.Sprint("c01-enc-", total, d), int64(nb))
					if caseNo%4 == 0 {
						body = make([]byte, nb) // zeros: the same boundary with a tiny compressed file
					}
					doCase(idx, kt, kind, body, fmt.Sprintf("encoded-boundary-%d", total))
					idx++
				}
			}
		}
	}
	for _, T := range []int{4096, 8192, 32768, 65536, 1 << 18, 1 << 20, 2 << 20} {
		if T > maxSize*2 {
			continue
		}
		caseNo++
		if caseNo%c.of != c.shard {
			continue
		}
		kt, kind := kindOf(caseNo % 3)
		seed := fmt.Sprint("c01-zip-", T)
		nb := int64(T - 64)
		hit := false
		for it := 0; it < 40 && nb > 0; it++ {
			L := len(gitfmt.EncodeObjectFile(kind, core.RandBytes(seed, nb)))
			if L == T {
				hit = true
				break
			}
			nb += int64(T - L)
		}
		if hit {
			c.count("C01.compressed-boundary-cases")
			doCase(idx, kt, kind, core.RandBytes(seed, nb), fmt.Sprintf("compressed-boundary-%d", T))
			idx++
			if raw, err := readObjectFile(root, gitfmt.ObjectID(kind, core.RandBytes(seed, nb))); err == nil && len(raw) == T {
				c.count("C01.compressed-boundary-hit-exactly")
			}
		}
	}
	for i := 0; i < n; i++ {
		body, class := gen.Content(c.rng, maxSize)
		kt, kind := kindOf(c.rng.IntN(3))
		doCase(idx, kt, kind, body, class)
		idx++
	}
	// storing unrelated objects never changed what was stored earlier
	c.oracle("C01.restore-idempotent")
	for _, s := range keep {
		raw, err := readObjectFile(root, s.id)
		if err != nil {
			c.fail("C01.restore-idempotent", "object-vanished", s.kind, "object %s is gone after storing other objects", s.id)
			continue
		}
		if d, e := gitfmt.DecodeObjectFile(raw); e != nil || d.Kind != s.kind || !bytes.Equal(d.Body, s.body) {
			c.fail("C01.restore-idempotent", "content-changed-by-other-stores", s.kind, "object %s changed after storing other objects", s.id)
		}
	}
}

func init() { monitors["C01"] = monC01 }
