module verif/inproc

go 1.23

require (
	github.com/JunNishimura/Goit v0.0.0
	verif/harness v0.0.0
)

require (
	github.com/fatih/color v1.18.0 // indirect
	github.com/mattn/go-colorable v0.1.13 // indirect
	github.com/mattn/go-isatty v0.0.20 // indirect
	golang.org/x/sys v0.25.0 // indirect
)

replace github.com/JunNishimura/Goit => /repo

replace verif/harness => ../
