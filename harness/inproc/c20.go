package main

import (
	"fmt"
	"os"
	"path/filepath"

	va "github.com/JunNishimura/Goit/verifapi"

	"verif/harness/gitfmt"
)

var c20Vals = []string{"plain", "two words", "a=b", "a=b=c", "=lead", "trail=", "[x]", "[", "]", "#hash", "a #b", "\"quoted\"", "it's", "é ü", "日本 語", "a;b", "k = v", "x[0]=1", "A=B", "[bot]", "O'Neil"}

// C20 (in-process): values written through the real Config.Add/Write are what a fresh
// NewConfig returns, with local-over-global precedence.
func monC20(c *runCtx) {
	root := filepath.Join(c.work, "repo", ".goit")
	os.MkdirAll(root, 0o777)
	home := os.Getenv("HOME")
	n := c.pick(300, 4000) / c.of
	for i := 0; i < n; i++ {
		os.Remove(filepath.Join(root, "config"))
		os.Remove(filepath.Join(home, ".goitconfig"))
		model := map[bool]map[string]string{false: {}, true: {}} // global? -> "sec.key" -> value
		var err error
		steps := 1 + c.rng.IntN(8)
		c.res.Evals++
		bad := c.guarded("C20.reload", "write", "Config.Add/Write", func() {
			for s := 0; s < steps; s++ {
				var cf *va.Config
				cf, err = va.NewConfig(root)
				if err != nil {
					return
				}
				global := c.rng.IntN(3) == 0
				sec := []string{"user", "core", "x-y"}[c.rng.IntN(3)]
				key := []string{"name", "email", "k1"}[c.rng.IntN(3)]
				val := c20Vals[c.rng.IntN(len(c20Vals))]
				c.note("C20 case %d step %d global=%v %s.%s=%q", i, s, global, sec, key, val)
				cf.Add(sec, key, val, global)
				path := filepath.Join(root, "config")
				if global {
					path = filepath.Join(home, ".goitconfig")
				}
				if err = cf.Write(path, global); err != nil {
					return
				}
				model[global][sec+"."+key] = val
			}
		})
		if bad {
			continue
		}
		if err != nil {
			c.fail("C20.reload", "write-error", "write", "config write failed: %v", err)
			continue
		}
		// independent parse of both files == model
		c.oracle("C20.file-roundtrip")
		for _, g := range []bool{false, true} {
			path := filepath.Join(root, "config")
			if g {
				path = filepath.Join(home, ".goitconfig")
			}
			raw, _ := os.ReadFile(path)
			parsed, perr := gitfmt.ParseConfig(raw)
			if perr != nil {
				c.fail("C20.file-roundtrip", "config-unparsable", "write", "file written by Config.Write does not parse: %v: %q", perr, clip(string(raw), 120))
				continue
			}
			for sk, v := range model[g] {
				sec, key := splitDot(sk)
				if parsed[sec][key] != v {
					c.fail("C20.file-roundtrip", "value-altered", "value", "global=%v %s written %q, file holds %q", g, sk, v, parsed[sec][key])
				}
			}
			cnt := 0
			for _, kv := range parsed {
				cnt += len(kv)
			}
			if cnt != len(model[g]) {
				c.fail("C20.lost-key", "key-count-differs", "write", "global=%v file holds %d keys, model %d", g, cnt, len(model[g]))
			}
		}
		// reload through the real reader
		var cf *va.Config
		if c.guarded("C20.reload", "reload", "NewConfig", func() { cf, err = va.NewConfig(root) }) {
			continue
		}
		c.oracle("C20.reload")
		if err != nil {
			c.fail("C20.reload", "reload-error", "reload", "NewConfig fails on files written by Config.Write: %v", err)
			continue
		}
		eff := func(k string) (string, bool) {
			if v, ok := model[false]["user."+k]; ok {
				return v, true
			}
			v, ok := model[true]["user."+k]
			return v, ok
		}
		wn, nset := eff("name")
		we, eset := eff("email")
		if cf.GetUserName() != wn || cf.GetEmail() != we || cf.IsUserSet() != (nset && eset) {
			c.fail("C20.reload", "effective-value-differs", "precedence", "reloaded name=%q email=%q set=%v; model name=%q email=%q set=%v (local %v global %v)", cf.GetUserName(), cf.GetEmail(), cf.IsUserSet(), wn, we, nset && eset, model[false], model[true])
		}
		_, ln := model[false]["user.name"]
		_, gn := model[true]["user.name"]
		c.class(fmt.Sprintf("reload|name:l%vg%v|steps%d", ln, gn, steps))
		if i < 2 {
			c.sample(fmt.Sprintf("local=%v global=%v", model[false], model[true]))
		}
	}
}

func splitDot(s string) (string, string) {
	for i := 0; i < len(s); i++ {
		if s[i] == '.' {
			return s[:i], s[i+1:]
		}
	}
	return s, ""
}

func init() { monitors["C20"] = monC20 }
