// Package gitfmt holds INDEPENDENT decoders/encoders of Goit's on-disk formats.
// It imports nothing from Goit: the oracles never trust Goit's own readers.
package gitfmt

import (
	"bytes"
	"compress/zlib"
	"crypto/sha1"
	"encoding/binary"
	"encoding/hex"
	"errors"
	"fmt"
	"io"
	"sort"
	"strconv"
	"strings"
)

// ObjectID returns the hex SHA-1 of "<kind> <len>\0<body>".
func ObjectID(kind string, body []byte) string {
	h := sha1.New()
	h.Write([]byte(kind))
	h.Write([]byte{' '})
	h.Write([]byte(strconv.Itoa(len(body))))
	h.Write([]byte{0})
	h.Write(body)
	return hex.EncodeToString(h.Sum(nil))
}

func BlobID(body []byte) string { return ObjectID("blob", body) }

type Object struct {
	Kind string
	Body []byte
	// ContentID is the SHA-1 of the inflated content (header+body).
	ContentID string
}

// maxInflate bounds what the oracle itself is willing to inflate.
const maxInflate = 256 << 20

// DecodeObjectFile inflates a loose object file and checks its framing.
func DecodeObjectFile(raw []byte) (*Object, error) {
	zr, err := zlib.NewReader(bytes.NewReader(raw))
	if err != nil {
		return nil, fmt.Errorf("zlib header: %w", err)
	}
	defer zr.Close()
	content, err := io.ReadAll(io.LimitReader(zr, maxInflate))
	if err != nil {
		return nil, fmt.Errorf("inflate: %w", err)
	}
	nul := bytes.IndexByte(content, 0)
	if nul < 0 {
		return nil, errors.New("no NUL after header")
	}
	hdr := string(content[:nul])
	sp := strings.IndexByte(hdr, ' ')
	if sp < 0 {
		return nil, fmt.Errorf("header without space: %q", hdr)
	}
	kind, lenStr := hdr[:sp], hdr[sp+1:]
	switch kind {
	case "blob", "tree", "commit", "tag":
	default:
		return nil, fmt.Errorf("unknown kind %q", kind)
	}
	n, err := strconv.Atoi(lenStr)
	if err != nil || n < 0 || strconv.Itoa(n) != lenStr {
		return nil, fmt.Errorf("bad length %q", lenStr)
	}
	body := content[nul+1:]
	if len(body) != n {
		return nil, fmt.Errorf("length %d in header, %d bytes of body", n, len(body))
	}
	sum := sha1.Sum(content)
	return &Object{Kind: kind, Body: body, ContentID: hex.EncodeToString(sum[:])}, nil
}

// EncodeObjectFile produces a loose object file (used only to build hostile inputs).
func EncodeObjectFile(kind string, body []byte) []byte {
	var b bytes.Buffer
	w := zlib.NewWriter(&b)
	w.Write(append([]byte(fmt.Sprintf("%s %d\x00", kind, len(body))), body...))
	w.Close()
	return b.Bytes()
}

// BodyLenForEncoded returns n such that len("<kind> n\x00") + n == total (ok=false if no such n exists).
func BodyLenForEncoded(kind string, total int) (int, bool) {
	for n := total - len(kind) - 3; n >= 0 && n > total-len(kind)-24; n-- {
		if len(fmt.Sprintf("%s %d\x00", kind, n))+n == total {
			return n, true
		}
	}
	return 0, false
}

// DeflateRaw compresses arbitrary content as a zlib stream (no header added).
func DeflateRaw(content []byte) []byte {
	var b bytes.Buffer
	w := zlib.NewWriter(&b)
	w.Write(content)
	w.Close()
	return b.Bytes()
}

type TreeEntry struct {
	Mode string
	Name string
	ID   string
}

func (e TreeEntry) IsDir() bool { return e.Mode == "040000" || e.Mode == "40000" }

// ParseTree decodes "<mode> SP <name> NUL <20 bytes>"*; the name is everything
// between the first space and the NUL.
func ParseTree(body []byte) ([]TreeEntry, error) {
	var out []TreeEntry
	for len(body) > 0 {
		sp := bytes.IndexByte(body, ' ')
		nul := bytes.IndexByte(body, 0)
		if sp < 0 || nul < 0 || sp > nul {
			return nil, fmt.Errorf("malformed tree entry at %q", trunc(body, 40))
		}
		mode := string(body[:sp])
		name := string(body[sp+1 : nul])
		if len(body) < nul+1+20 {
			return nil, errors.New("truncated id in tree entry")
		}
		switch mode {
		case "040000", "40000", "100644", "100755", "120000":
		default:
			return nil, fmt.Errorf("unknown mode %q", mode)
		}
		id := hex.EncodeToString(body[nul+1 : nul+21])
		out = append(out, TreeEntry{Mode: mode, Name: name, ID: id})
		body = body[nul+21:]
	}
	return out, nil
}

type Sig struct {
	Name  string
	Email string
	Secs  int64
	TZ    string // "+HHMM" / "-HHMM" as stored
	Raw   string
}

// OffsetSeconds returns the UTC offset the TZ text denotes.
func (s Sig) OffsetSeconds() (int, error) {
	if len(s.TZ) != 5 || (s.TZ[0] != '+' && s.TZ[0] != '-') {
		return 0, fmt.Errorf("bad tz %q", s.TZ)
	}
	for _, c := range s.TZ[1:] {
		if c < '0' || c > '9' {
			return 0, fmt.Errorf("bad tz %q", s.TZ)
		}
	}
	hh, _ := strconv.Atoi(s.TZ[1:3])
	mm, _ := strconv.Atoi(s.TZ[3:5])
	v := hh*3600 + mm*60
	if s.TZ[0] == '-' {
		v = -v
	}
	return v, nil
}

// ParseSig splits "Name <email> secs tz" from the right.
func ParseSig(raw string) (Sig, error) {
	s := Sig{Raw: raw}
	i := strings.LastIndexByte(raw, ' ')
	if i < 0 {
		return s, fmt.Errorf("signature without tz: %q", raw)
	}
	s.TZ = raw[i+1:]
	rest := raw[:i]
	j := strings.LastIndexByte(rest, ' ')
	if j < 0 {
		return s, fmt.Errorf("signature without seconds: %q", raw)
	}
	secs, err := strconv.ParseInt(rest[j+1:], 10, 64)
	if err != nil {
		return s, fmt.Errorf("signature seconds: %q", raw)
	}
	s.Secs = secs
	rest = rest[:j]
	if !strings.HasSuffix(rest, ">") {
		return s, fmt.Errorf("signature without <email>: %q", raw)
	}
	k := strings.LastIndex(rest, " <")
	if k < 0 {
		return s, fmt.Errorf("signature without ' <': %q", raw)
	}
	s.Name = rest[:k]
	s.Email = rest[k+2 : len(rest)-1]
	return s, nil
}

type Commit struct {
	Tree      string
	Parents   []string
	Author    Sig
	Committer Sig
	HasAuthor bool
	HasCommit bool
	Message   string // without the one framing "\n" Goit appends
	RawMsg    string // exactly what follows the blank line
}

func ParseCommit(body []byte) (*Commit, error) {
	c := &Commit{}
	s := string(body)
	sep := strings.Index(s, "\n\n")
	var hdr string
	if sep < 0 {
		return nil, errors.New("commit without blank line")
	}
	hdr = s[:sep]
	c.RawMsg = s[sep+2:]
	c.Message = strings.TrimSuffix(c.RawMsg, "\n")
	for _, line := range strings.Split(hdr, "\n") {
		sp := strings.IndexByte(line, ' ')
		if sp < 0 {
			return nil, fmt.Errorf("bad commit header line %q", line)
		}
		key, val := line[:sp], line[sp+1:]
		switch key {
		case "tree":
			if !IsHex40(val) {
				return nil, fmt.Errorf("bad tree id %q", val)
			}
			if c.Tree != "" {
				return nil, errors.New("two tree lines")
			}
			c.Tree = val
		case "parent":
			if !IsHex40(val) {
				return nil, fmt.Errorf("bad parent id %q", val)
			}
			c.Parents = append(c.Parents, val)
		case "author":
			sig, err := ParseSig(val)
			if err != nil {
				return nil, err
			}
			c.Author, c.HasAuthor = sig, true
		case "committer":
			sig, err := ParseSig(val)
			if err != nil {
				return nil, err
			}
			c.Committer, c.HasCommit = sig, true
		default:
			return nil, fmt.Errorf("unknown commit header %q", key)
		}
	}
	if c.Tree == "" {
		return nil, errors.New("commit without tree")
	}
	return c, nil
}

func IsHex40(s string) bool {
	if len(s) != 40 {
		return false
	}
	for i := 0; i < 40; i++ {
		c := s[i]
		if !((c >= '0' && c <= '9') || (c >= 'a' && c <= 'f')) {
			return false
		}
	}
	return true
}

type IndexEntry struct {
	ID   string
	Path string
}

type Index struct {
	Signature string
	Version   uint32
	Count     uint32
	Entries   []IndexEntry
}

// ParseIndex decodes DIRC, u32 version, u32 count, count x (20-byte id, u16 len, path).
func ParseIndex(raw []byte) (*Index, error) {
	if len(raw) < 12 {
		return nil, fmt.Errorf("index shorter than its header (%d bytes)", len(raw))
	}
	ix := &Index{Signature: string(raw[:4]), Version: binary.BigEndian.Uint32(raw[4:8]), Count: binary.BigEndian.Uint32(raw[8:12])}
	if ix.Signature != "DIRC" {
		return nil, fmt.Errorf("index signature %q", ix.Signature)
	}
	p := raw[12:]
	for i := uint32(0); i < ix.Count; i++ {
		if len(p) < 22 {
			return nil, fmt.Errorf("index truncated in entry %d of %d", i, ix.Count)
		}
		id := hex.EncodeToString(p[:20])
		n := int(binary.BigEndian.Uint16(p[20:22]))
		p = p[22:]
		if len(p) < n {
			return nil, fmt.Errorf("index truncated in path of entry %d", i)
		}
		ix.Entries = append(ix.Entries, IndexEntry{ID: id, Path: string(p[:n])})
		p = p[n:]
	}
	if len(p) != 0 {
		return nil, fmt.Errorf("%d trailing bytes after %d index entries", len(p), ix.Count)
	}
	return ix, nil
}

// EncodeIndex builds an index file (used only to construct inputs).
func EncodeIndex(entries []IndexEntry) []byte {
	var b bytes.Buffer
	b.WriteString("DIRC")
	binary.Write(&b, binary.BigEndian, uint32(1))
	binary.Write(&b, binary.BigEndian, uint32(len(entries)))
	for _, e := range entries {
		id, _ := hex.DecodeString(e.ID)
		b.Write(id)
		binary.Write(&b, binary.BigEndian, uint16(len(e.Path)))
		b.WriteString(e.Path)
	}
	return b.Bytes()
}

// ParseConfig: "[section]" lines and "key = value" lines. Returns section->key->value.
func ParseConfig(raw []byte) (map[string]map[string]string, error) {
	out := map[string]map[string]string{}
	cur := ""
	if len(raw) == 0 {
		return out, nil
	}
	lines := strings.Split(strings.TrimSuffix(string(raw), "\n"), "\n")
	for _, ln := range lines {
		t := strings.TrimSpace(ln)
		if t == "" {
			continue
		}
		if strings.HasPrefix(ln, "[") && strings.HasSuffix(ln, "]") {
			cur = ln[1 : len(ln)-1]
			if _, ok := out[cur]; !ok {
				out[cur] = map[string]string{}
			}
			continue
		}
		eq := strings.Index(t, "=")
		if eq < 0 {
			return nil, fmt.Errorf("config line without '=': %q", ln)
		}
		if cur == "" {
			return nil, fmt.Errorf("config key before any section: %q", ln)
		}
		k := strings.TrimSpace(t[:eq])
		v := strings.TrimSpace(t[eq+1:])
		out[cur][k] = v
	}
	return out, nil
}

type LogLine struct {
	From, To string
	Ident    string
	Rest     string // after the TAB
	Raw      string
}

// ParseLogLine: positional split (40 hex, SP, 40 hex, SP, identity up to TAB, rest).
func ParseLogLine(line string) (LogLine, error) {
	l := LogLine{Raw: line}
	if len(line) < 82 || line[40] != ' ' || line[81] != ' ' || !IsHex40(line[:40]) || !IsHex40(line[41:81]) {
		return l, fmt.Errorf("malformed log line %q", trunc([]byte(line), 60))
	}
	l.From, l.To = line[:40], line[41:81]
	rest := line[82:]
	tab := strings.IndexByte(rest, '\t')
	if tab < 0 {
		return l, fmt.Errorf("log line without TAB")
	}
	l.Ident, l.Rest = rest[:tab], rest[tab+1:]
	return l, nil
}

func trunc(b []byte, n int) []byte {
	if len(b) > n {
		return b[:n]
	}
	return b
}

func SortedKeys[V any](m map[string]V) []string {
	ks := make([]string, 0, len(m))
	for k := range m {
		ks = append(ks, k)
	}
	sort.Strings(ks)
	return ks
}
