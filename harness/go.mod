module verif/harness

go 1.23
