// Package sandbox: sandbox directories, child-process runner, snapshots and the decoded view.
package sandbox

import (
	"bytes"
	"crypto/sha1"
	"encoding/hex"
	"fmt"
	"os"
	"os/exec"
	"path/filepath"
	"sort"
	"strconv"
	"strings"
	"sync"
	"sync/atomic"
	"syscall"
	"time"

	"verif/harness/gitfmt"
)

// Sandbox is <Root>/w (working tree, cwd of every goit child) and <Root>/home (HOME).
type Sandbox struct {
	Root string
	// deep sandboxes: Root is a symbolic link (a short alias the harness works through) to RealRoot, whose path is
	// long; goit is started with PWD = the real path, so that the paths IT builds come close to PATH_MAX
	RealRoot string
	deepBase string
}

// NewDeep makes a sandbox whose working tree has a real absolute path of exactly wLen bytes (at most 4095).
func NewDeep(parent string, name string, wLen int) (*Sandbox, error) {
	realParent, err := filepath.EvalSymlinks(parent)
	if err != nil {
		if err := os.MkdirAll(parent, 0o777); err != nil {
			return nil, err
		}
		if realParent, err = filepath.EvalSymlinks(parent); err != nil {
			return nil, err
		}
	}
	base := filepath.Join(realParent, name+".d")
	os.RemoveAll(base)
	if err := os.MkdirAll(base, 0o777); err != nil {
		return nil, err
	}
	remaining := wLen - len(base) - len("/r/w") // bytes to fill with "/<component>" segments
	if remaining < 2 {
		return nil, fmt.Errorf("deep sandbox: %d is too short for %s", wLen, base)
	}
	var comps []string
	for remaining > 0 {
		take := remaining
		if take > 201 {
			take = 201
			if remaining-take == 1 { // never leave a lone "/"
				take = 200
			}
		}
		comps = append(comps, strings.Repeat("p", take-1))
		remaining -= take
	}
	comps = append(comps, "r")
	// directory by directory, relative to a descriptor: no path string ever exceeds PATH_MAX
	cur, err := syscall.Open(base, syscall.O_RDONLY|syscall.O_DIRECTORY, 0)
	if err != nil {
		return nil, err
	}
	for _, c := range comps {
		if err := syscall.Mkdirat(cur, c, 0o777); err != nil {
			syscall.Close(cur)
			return nil, err
		}
		next, err := syscall.Openat(cur, c, syscall.O_RDONLY|syscall.O_DIRECTORY, 0)
		syscall.Close(cur)
		if err != nil {
			return nil, err
		}
		cur = next
	}
	for _, d := range []string{"w", "home"} {
		if err := syscall.Mkdirat(cur, d, 0o777); err != nil {
			syscall.Close(cur)
			return nil, err
		}
	}
	syscall.Close(cur)
	real := base + "/" + strings.Join(comps, "/")
	if len(real)+len("/w") != wLen {
		return nil, fmt.Errorf("deep sandbox: length %d instead of %d", len(real)+2, wLen)
	}
	alias := filepath.Join(parent, name)
	os.Remove(alias)
	if err := os.Symlink(real, alias); err != nil {
		return nil, err
	}
	return &Sandbox{Root: alias, RealRoot: real, deepBase: base}, nil
}

func New(parent string, name string) (*Sandbox, error) {
	root := filepath.Join(parent, name)
	if err := os.MkdirAll(filepath.Join(root, "w"), 0o777); err != nil {
		return nil, err
	}
	if err := os.MkdirAll(filepath.Join(root, "home"), 0o777); err != nil {
		return nil, err
	}
	return &Sandbox{Root: root}, nil
}

func (s *Sandbox) W() string    { return filepath.Join(s.Root, "w") }
func (s *Sandbox) Home() string { return filepath.Join(s.Root, "home") }
func (s *Sandbox) Destroy() {
	os.RemoveAll(s.Root)
	if s.deepBase != "" {
		os.RemoveAll(s.deepBase)
	}
	DropCache(s.Root + "/")
}

// CheckNoAncestorGoit: FindGoitRoot walks upwards; a .goit in an ancestor would be adopted.
func CheckNoAncestorGoit(dir string) error {
	d, _ := filepath.Abs(dir)
	for {
		if fi, err := os.Stat(filepath.Join(d, ".goit")); err == nil && fi.IsDir() {
			return fmt.Errorf("ancestor %s contains .goit", d)
		}
		p := filepath.Dir(d)
		if p == d {
			return nil
		}
		d = p
	}
}

// ---------------------------------------------------------------------------------------
// Running goit

type Result struct {
	Exit     int // -1 if signalled
	Signal   string
	Stdout   []byte
	Stderr   []byte
	CPUms    int64
	TimedOut bool // wall-clock watchdog fired (inconclusive by itself)
	Blocked  bool // every thread of the process slept, without using any CPU, over consecutive samples: it waits for something that never comes
}

func (r *Result) Crashed() (bool, string) {
	if r.TimedOut {
		return false, "" // the goroutine dump in stderr was requested by the watchdog (SIGQUIT); Blocked / CPUms tell what happened
	}
	if r.Signal != "" {
		return true, "signal " + r.Signal
	}
	for _, s := range [][]byte{r.Stderr, r.Stdout} {
		if bytes.Contains(s, []byte("panic: ")) || bytes.Contains(s, []byte("goroutine 1 [")) || bytes.Contains(s, []byte("fatal error: ")) {
			return true, "go runtime panic/fatal"
		}
	}
	return false, ""
}

type RunOpts struct {
	TZ       string            // value of TZ for the child ("" => UTC)
	ExtraEnv map[string]string // e.g. VERIF_FAULT
	Dir      string            // cwd override (default <root>/w)
	WallMs   int               // watchdog, default 20000
}

var outSeq struct {
	sync.Mutex
	n int
}

// Run executes one goit process. stdout/stderr go to files so a panic dump is never lost.
func (s *Sandbox) Run(goit string, argv []string, o RunOpts) *Result {
	outSeq.Lock()
	outSeq.n++
	n := outSeq.n
	outSeq.Unlock()
	outPath := filepath.Join(s.Root, fmt.Sprintf(".out.%d", n))
	errPath := filepath.Join(s.Root, fmt.Sprintf(".err.%d", n))
	fo, _ := os.Create(outPath)
	fe, _ := os.Create(errPath)
	defer os.Remove(outPath)
	defer os.Remove(errPath)

	// Safety net: goit runs with the harness's privileges and follows any path it is given (`add /x` followed by
	// `rm` deletes /x). An absolute argument must lie inside this sandbox or beneath a directory that does not exist.
	for _, a := range argv {
		if filepath.IsAbs(a) && !strings.HasPrefix(filepath.Clean(a), s.Root+string(filepath.Separator)) && filepath.Clean(a) != s.Root {
			top := "/" + strings.SplitN(strings.TrimPrefix(filepath.Clean(a), "/"), "/", 2)[0]
			if _, err := os.Lstat(top); err == nil || top == "/" {
				fo.Close()
				fe.Close()
				return &Result{Exit: -2, Stderr: []byte("harness: refused to run goit with an absolute path outside the sandbox: " + a)}
			}
		}
	}
	cmd := exec.Command(goit, argv...)
	if n := o.ExtraEnv["VERIF_NOFILE"]; n != "" {
		// an environment in which a process may hold at most n open files (the limit is 256 on some systems by default)
		cmd = exec.Command("/bin/sh", append([]string{"-c", "ulimit -n " + n + "; exec \"$0\" \"$@\"", goit}, argv...)...)
	}
	cmd.Dir = s.W()
	if o.Dir != "" {
		cmd.Dir = o.Dir
	}
	tz := o.TZ
	if tz == "" {
		tz = "UTC"
	}
	env := []string{"HOME=" + s.Home(), "TZ=" + tz, "NO_COLOR=1", "PATH=/usr/bin:/bin", "LANG=C.UTF-8"}
	for k, v := range o.ExtraEnv {
		env = append(env, k+"="+v)
	}
	if d := os.Getenv("GOCOVERDIR"); d != "" {
		// tools/coverage.sh only: a goit built with -cover drops its counters there
		env = append(env, "GOCOVERDIR="+d)
	}
	if s.RealRoot != "" && strings.HasPrefix(cmd.Dir, s.Root) {
		env = append(env, "PWD="+s.RealRoot+strings.TrimPrefix(cmd.Dir, s.Root))
	}
	cmd.Env = env
	cmd.Stdout = fo
	cmd.Stderr = fe
	cmd.Stdin = nil
	res := &Result{}
	wall := o.WallMs
	if wall == 0 {
		wall = 20000
	}
	if err := cmd.Start(); err != nil {
		fo.Close()
		fe.Close()
		res.Exit = -2
		res.Stderr = []byte("harness: start failed: " + err.Error())
		return res
	}
	done := make(chan error, 1)
	go func() { done <- cmd.Wait() }()
	var err error
	finished := false
	deadline := time.Now().Add(time.Duration(wall) * time.Millisecond)
	// A goit process has nothing to wait for (no network, no timers, no children, stdin closed). After a grace period its
	// threads are sampled: all asleep with no CPU used between three samples means blocked for ever -- decided on
	// scheduler state, not on elapsed time, so a loaded machine (threads runnable, not asleep) cannot produce it.
	grace, lastCPU, asleep := time.After(4*time.Second), int64(-1), 0
	tick := time.NewTicker(700 * time.Millisecond)
	defer tick.Stop()
	started := false
wait:
	for {
		select {
		case err = <-done:
			finished = true
			break wait
		case <-grace:
			started = true
		case <-tick.C:
			if time.Now().After(deadline) {
				res.TimedOut = true
				break wait
			}
			if !started {
				continue
			}
			if cpu, sleeping := procState(cmd.Process.Pid); sleeping && cpu == lastCPU {
				asleep++
			} else {
				asleep = 0
				lastCPU = cpu
			}
			if asleep >= 3 {
				res.Blocked = true
				res.TimedOut = true
				break wait
			}
		}
	}
	if !finished {
		cmd.Process.Signal(syscall.SIGQUIT)
		select {
		case err = <-done:
		case <-time.After(2 * time.Second):
			cmd.Process.Kill()
			err = <-done
		}
	}
	fo.Close()
	fe.Close()
	res.Stdout, _ = os.ReadFile(outPath)
	res.Stderr, _ = os.ReadFile(errPath)
	if ps := cmd.ProcessState; ps != nil {
		res.CPUms = (ps.UserTime() + ps.SystemTime()).Milliseconds()
		if ws, ok := ps.Sys().(syscall.WaitStatus); ok {
			if ws.Signaled() {
				res.Exit = -1
				res.Signal = ws.Signal().String()
			} else {
				res.Exit = ws.ExitStatus()
			}
		} else {
			res.Exit = ps.ExitCode()
		}
	} else if err != nil {
		res.Exit = -2
	}
	return res
}

// procState sums utime+stime (clock ticks) over the threads of pid and tells whether every thread is in state S.
func procState(pid int) (int64, bool) {
	tasks, err := os.ReadDir(fmt.Sprintf("/proc/%d/task", pid))
	if err != nil || len(tasks) == 0 {
		return -1, false
	}
	var cpu int64
	all := true
	for _, t := range tasks {
		b, err := os.ReadFile(fmt.Sprintf("/proc/%d/task/%s/stat", pid, t.Name()))
		if err != nil {
			return -1, false
		}
		// pid (comm) state ppid ... utime(14) stime(15): comm may contain blanks, cut behind the last ')'
		i := bytes.LastIndexByte(b, ')')
		f := strings.Fields(string(b[i+1:]))
		if i < 0 || len(f) < 14 {
			return -1, false
		}
		if f[0] != "S" {
			all = false
		}
		u, _ := strconv.ParseInt(f[11], 10, 64)
		v, _ := strconv.ParseInt(f[12], 10, 64)
		cpu += u + v
	}
	return cpu, all
}

// ---------------------------------------------------------------------------------------
// Snapshots

// Snap is the complete content of a sandbox: files as bytes plus the set of directories.
// Paths are relative to the sandbox root: "w/...", "home/...".
type Snap struct {
	Root  string // sandbox root at the time of the snapshot (absolute)
	Files map[string][]byte
	Dirs  map[string]bool
	Odd   map[string]string // symlinks, special files (should never appear)
	// Modes: permission bits of files without owner write permission and of directories without owner rwx (the unusual
	// ones: a read-only file, a directory that cannot be searched); kept and restored, not part of Diff
	Modes map[string]os.FileMode
	repo  *Repo
	once  sync.Once
}

func (s *Sandbox) Snapshot() *Snap {
	sn := &Snap{Root: s.Root, Files: map[string][]byte{}, Dirs: map[string]bool{}, Odd: map[string]string{}, Modes: map[string]os.FileMode{}}
	firstOfInode := map[[2]uint64]string{}
	for _, top := range []string{"w", "home"} {
		base := filepath.Join(s.Root, top)
		filepath.Walk(base, func(p string, fi os.FileInfo, err error) error {
			if err != nil {
				return nil
			}
			rel, _ := filepath.Rel(s.Root, p)
			switch {
			case fi.IsDir():
				sn.Dirs[rel] = true
				if fi.Mode().Perm()&0o700 != 0o700 {
					sn.Modes[rel] = fi.Mode().Perm()
				}
			case fi.Mode().IsRegular():
				if fi.Mode().Perm()&0o200 == 0 {
					sn.Modes[rel] = fi.Mode().Perm()
				}
				b, err := readCached(p, fi)
				if err != nil {
					sn.Odd[rel] = "unreadable: " + err.Error()
				} else {
					sn.Files[rel] = b
				}
				// two names of one file (hard links): part of the state, a write through one name changes the other
				if st, ok := fi.Sys().(*syscall.Stat_t); ok && st.Nlink > 1 {
					k := [2]uint64{uint64(st.Dev), st.Ino}
					if first, seen := firstOfInode[k]; seen {
						sn.Odd[rel] = "hardlink = " + first
					} else {
						firstOfInode[k] = rel
					}
				}
			case fi.Mode()&os.ModeSymlink != 0:
				t, _ := os.Readlink(p)
				sn.Odd[rel] = "symlink -> " + t
				// what a reader finds through the link (a linked config file is still the config)
				if ti, err := os.Stat(p); err == nil && ti.Mode().IsRegular() {
					if b, err := os.ReadFile(p); err == nil {
						sn.Files[rel] = b
					}
				}
			default:
				sn.Odd[rel] = fi.Mode().String()
			}
			return nil
		})
	}
	return sn
}

// readCached avoids re-reading unchanged files at every snapshot. A file is unchanged iff inode,
// size, mtime and ctime (which no user call can set) are all the same as when it was read.
type fileKey struct {
	path string
	ino  uint64
}
type fileVal struct {
	size         int64
	mtime, ctime int64
	data         []byte
}

var fileCache sync.Map

// cacheBytes bounds the two content caches (file bytes, decoded objects): a workload that produces many large distinct
// files (a multi-MiB object killed at hundreds of positions) must not grow the monitor without limit.
var cacheBytes atomic.Int64

const cacheLimit = 3 << 30

func cacheAccount(n int) {
	if cacheBytes.Add(int64(n)) > cacheLimit {
		cacheBytes.Store(0)
		fileCache.Range(func(k, _ any) bool { fileCache.Delete(k); return true })
		decodeCache.Range(func(k, _ any) bool { decodeCache.Delete(k); return true })
	}
}

func readCached(p string, fi os.FileInfo) ([]byte, error) {
	st, ok := fi.Sys().(*syscall.Stat_t)
	if !ok {
		return os.ReadFile(p)
	}
	k := fileKey{p, st.Ino}
	ct := st.Ctim.Sec*1e9 + st.Ctim.Nsec
	mt := st.Mtim.Sec*1e9 + st.Mtim.Nsec
	if v, ok := fileCache.Load(k); ok {
		fv := v.(*fileVal)
		if fv.size == st.Size && fv.ctime == ct && fv.mtime == mt {
			return fv.data, nil
		}
	}
	b, err := os.ReadFile(p)
	if err != nil {
		return nil, err
	}
	// only cache if the file was not modified while we read it
	if fi2, err2 := os.Lstat(p); err2 == nil {
		if st2, ok := fi2.Sys().(*syscall.Stat_t); ok && st2.Ino == st.Ino && st2.Size == st.Size && st2.Ctim == st.Ctim && int64(len(b)) == st.Size {
			fileCache.Store(k, &fileVal{size: st.Size, mtime: mt, ctime: ct, data: b})
			cacheAccount(len(b))
		}
	}
	return b, nil
}

// DropCache forgets cached file contents beneath a directory (called when a sandbox is destroyed).
func DropCache(prefix string) {
	fileCache.Range(func(k, _ any) bool {
		if strings.HasPrefix(k.(fileKey).path, prefix) {
			fileCache.Delete(k)
		}
		return true
	})
}

// Restore makes the sandbox content equal to the snapshot (used for state-space exploration,
// crash/fault enumeration and replay).
func (s *Sandbox) Restore(sn *Snap) error {
	for _, top := range []string{"w", "home"} {
		if err := os.RemoveAll(filepath.Join(s.Root, top)); err != nil {
			return err
		}
	}
	dirs := make([]string, 0, len(sn.Dirs))
	for d := range sn.Dirs {
		dirs = append(dirs, d)
	}
	sort.Strings(dirs)
	for _, d := range dirs {
		if err := os.MkdirAll(filepath.Join(s.Root, d), 0o777); err != nil {
			return err
		}
	}
	for f, b := range sn.Files {
		if strings.HasPrefix(sn.Odd[f], "symlink -> ") || strings.HasPrefix(sn.Odd[f], "hardlink = ") {
			continue // the bytes behind a link are restored under the name of the file the link names
		}
		p := filepath.Join(s.Root, f)
		if err := os.MkdirAll(filepath.Dir(p), 0o777); err != nil {
			return err
		}
		if err := os.WriteFile(p, b, 0o666); err != nil {
			return err
		}
	}
	defer func() {
		for f, m := range sn.Modes {
			os.Chmod(filepath.Join(s.Root, f), m)
		}
	}()
	for f, what := range sn.Odd {
		if t, ok := strings.CutPrefix(what, "hardlink = "); ok {
			p := filepath.Join(s.Root, f)
			os.MkdirAll(filepath.Dir(p), 0o777)
			if err := os.Link(filepath.Join(s.Root, t), p); err != nil {
				return err
			}
		}
		if t, ok := strings.CutPrefix(what, "symlink -> "); ok {
			p := filepath.Join(s.Root, f)
			os.MkdirAll(filepath.Dir(p), 0o777)
			if err := os.Symlink(t, p); err != nil {
				return err
			}
		}
	}
	return nil
}

func (sn *Snap) Digest() string {
	h := sha1.New()
	keys := gitfmt.SortedKeys(sn.Files)
	for _, k := range keys {
		fmt.Fprintf(h, "F %s %d\n", k, len(sn.Files[k]))
		h.Write(sn.Files[k])
	}
	for _, k := range gitfmt.SortedKeys(sn.Dirs) {
		fmt.Fprintf(h, "D %s\n", k)
	}
	return hex.EncodeToString(h.Sum(nil))[:16]
}

// Diff lists paths whose presence or bytes differ (files and dirs).
func Diff(a, b *Snap) []string {
	var out []string
	// a symbolic link's own state is the text it holds (compared below, with the other odd entries); what a reader
	// finds THROUGH it is the state of another file, and changes or vanishes with that file
	link := func(sn *Snap, k string) bool { return strings.HasPrefix(sn.Odd[k], "symlink -> ") }
	for k, v := range a.Files {
		if link(a, k) {
			continue
		}
		w, ok := b.Files[k]
		if !ok || link(b, k) {
			out = append(out, "-"+k)
		} else if !bytes.Equal(v, w) {
			out = append(out, "~"+k)
		}
	}
	for k := range b.Files {
		if link(b, k) {
			continue
		}
		if _, ok := a.Files[k]; !ok || link(a, k) {
			out = append(out, "+"+k)
		}
	}
	for k, v := range a.Odd {
		if w, ok := b.Odd[k]; !ok {
			out = append(out, "-"+k+" ("+v+")")
		} else if v != w {
			out = append(out, "~"+k+" ("+v+" => "+w+")")
		}
	}
	for k, v := range b.Odd {
		if _, ok := a.Odd[k]; !ok {
			out = append(out, "+"+k+" ("+v+")")
		}
	}
	for k := range a.Dirs {
		if !b.Dirs[k] {
			out = append(out, "-"+k+"/")
		}
	}
	for k := range b.Dirs {
		if !a.Dirs[k] {
			out = append(out, "+"+k+"/")
		}
	}
	sort.Strings(out)
	return out
}

// WT returns working-tree files (relative to w/, outside .goit) -> bytes.
func (sn *Snap) WT() map[string][]byte {
	out := map[string][]byte{}
	for k, v := range sn.Files {
		if !strings.HasPrefix(k, "w/") {
			continue
		}
		p := k[2:]
		if p == ".goit" || strings.HasPrefix(p, ".goit/") {
			continue
		}
		out[p] = v
	}
	return out
}

// WTDirs returns working-tree directories (relative to w/, outside .goit).
func (sn *Snap) WTDirs() map[string]bool {
	out := map[string]bool{}
	for k := range sn.Dirs {
		if !strings.HasPrefix(k, "w/") {
			continue
		}
		p := k[2:]
		if p == ".goit" || strings.HasPrefix(p, ".goit/") {
			continue
		}
		out[p] = true
	}
	return out
}

// GoitFiles returns files under w/.goit (relative to .goit/).
func (sn *Snap) GoitFiles() map[string][]byte {
	out := map[string][]byte{}
	for k, v := range sn.Files {
		if strings.HasPrefix(k, "w/.goit/") {
			out[k[len("w/.goit/"):]] = v
		}
	}
	return out
}

func (sn *Snap) HasGoit() bool { return sn.Dirs["w/.goit"] }

// ---------------------------------------------------------------------------------------
// Decoded view

type ObjInfo struct {
	Obj *gitfmt.Object
	Err error
}

type Repo struct {
	HeadPresent bool
	HeadRaw     string
	HeadOK      bool   // exactly "ref: refs/heads/<plain name>"
	HeadBranch  string // valid if HeadOK

	Branches  map[string]string // file name under refs/heads -> raw content
	RefOddity []string          // directories or nested files under refs/heads

	IndexPresent bool
	Index        *gitfmt.Index
	IndexErr     error

	Objects map[string]*ObjInfo // id from path -> decode
	ObjOdd  []string            // files under objects/ with a non-object path

	Local, Global               map[string]map[string]string
	LocalErr, GlobalErr         error
	LocalPresent, GlobalPresent bool

	LogHEAD []string // lines of logs/HEAD
}

var decodeCache sync.Map // sha1(raw) -> *ObjInfo

func decodeCached(raw []byte) *ObjInfo {
	k := sha1.Sum(raw)
	if v, ok := decodeCache.Load(k); ok {
		return v.(*ObjInfo)
	}
	o, err := gitfmt.DecodeObjectFile(raw)
	oi := &ObjInfo{Obj: o, Err: err}
	decodeCache.Store(k, oi)
	if o != nil {
		cacheAccount(len(o.Body))
	}
	return oi
}

func (sn *Snap) Repo() *Repo {
	sn.once.Do(func() { sn.repo = decodeRepo(sn) })
	return sn.repo
}

func decodeRepo(sn *Snap) *Repo {
	r := &Repo{Branches: map[string]string{}, Objects: map[string]*ObjInfo{}}
	g := sn.GoitFiles()
	if b, ok := g["HEAD"]; ok {
		r.HeadPresent = true
		r.HeadRaw = string(b)
		const pfx = "ref: refs/heads/"
		if strings.HasPrefix(r.HeadRaw, pfx) {
			name := r.HeadRaw[len(pfx):]
			if name != "" && !strings.ContainsAny(name, "/\\\n\r\x00") && name != "." && name != ".." {
				r.HeadOK = true
				r.HeadBranch = name
			}
		}
	}
	for k, v := range g {
		switch {
		case strings.HasPrefix(k, "refs/heads/"):
			name := k[len("refs/heads/"):]
			if strings.Contains(name, "/") {
				r.RefOddity = append(r.RefOddity, "nested file "+k)
			} else {
				r.Branches[name] = string(v)
			}
		case strings.HasPrefix(k, "objects/"):
			rest := k[len("objects/"):]
			parts := strings.Split(rest, "/")
			if len(parts) == 2 && len(parts[0]) == 2 && len(parts[1]) == 38 && gitfmt.IsHex40(parts[0]+parts[1]) {
				r.Objects[parts[0]+parts[1]] = decodeCached(v)
			} else {
				r.ObjOdd = append(r.ObjOdd, k)
			}
		}
	}
	for d := range sn.Dirs {
		if strings.HasPrefix(d, "w/.goit/refs/heads/") {
			r.RefOddity = append(r.RefOddity, "directory "+d[len("w/.goit/"):])
		}
	}
	sort.Strings(r.RefOddity)
	if b, ok := g["index"]; ok {
		r.IndexPresent = true
		r.Index, r.IndexErr = gitfmt.ParseIndex(b)
	}
	if b, ok := g["config"]; ok {
		r.LocalPresent = true
		r.Local, r.LocalErr = gitfmt.ParseConfig(b)
	}
	if b, ok := sn.Files["home/.goitconfig"]; ok {
		r.GlobalPresent = true
		r.Global, r.GlobalErr = gitfmt.ParseConfig(b)
	}
	if b, ok := g["logs/HEAD"]; ok && len(b) > 0 {
		r.LogHEAD = strings.Split(strings.TrimSuffix(string(b), "\n"), "\n")
	}
	return r
}

// Idx returns the staged set path -> id ("" map if no index). ok=false if undecodable.
func (r *Repo) Idx() (map[string]string, bool) {
	out := map[string]string{}
	if !r.IndexPresent {
		return out, true
	}
	if r.IndexErr != nil {
		return nil, false
	}
	for _, e := range r.Index.Entries {
		out[e.Path] = e.ID
	}
	return out, true
}

func (r *Repo) Obj(id string) (*gitfmt.Object, bool) {
	oi, ok := r.Objects[id]
	if !ok || oi.Err != nil {
		return nil, false
	}
	return oi.Obj, true
}

func (r *Repo) Commit(id string) (*gitfmt.Commit, error) {
	o, ok := r.Obj(id)
	if !ok {
		return nil, fmt.Errorf("object %s missing or undecodable", id)
	}
	if o.Kind != "commit" {
		return nil, fmt.Errorf("object %s is a %s, not a commit", id, o.Kind)
	}
	return gitfmt.ParseCommit(o.Body)
}

// Flatten walks a tree object into path -> blob id, checking every level.
func (r *Repo) Flatten(treeID string) (map[string]string, error) {
	out := map[string]string{}
	var walk func(id, prefix string, depth int) error
	walk = func(id, prefix string, depth int) error {
		if depth > 64 {
			return fmt.Errorf("tree nesting deeper than 64 at %q", prefix)
		}
		o, ok := r.Obj(id)
		if !ok {
			return fmt.Errorf("tree %s (at %q) missing or undecodable", id, prefix)
		}
		if o.Kind != "tree" {
			return fmt.Errorf("object %s (at %q) is a %s, not a tree", id, prefix, o.Kind)
		}
		ents, err := gitfmt.ParseTree(o.Body)
		if err != nil {
			return fmt.Errorf("tree %s (at %q): %w", id, prefix, err)
		}
		seen := map[string]bool{}
		for _, e := range ents {
			if e.Name == "" || strings.Contains(e.Name, "/") {
				return fmt.Errorf("tree %s (at %q): bad entry name %q", id, prefix, e.Name)
			}
			key := e.Name
			if e.IsDir() {
				key += "/" // a file and a directory of one name are two different entries
			}
			if seen[key] {
				return fmt.Errorf("tree %s (at %q): duplicate entry %q", id, prefix, e.Name)
			}
			seen[key] = true
			p := prefix + e.Name
			if e.IsDir() {
				if err := walk(e.ID, p+"/", depth+1); err != nil {
					return err
				}
			} else {
				bo, ok := r.Obj(e.ID)
				if !ok {
					return fmt.Errorf("blob %s for %q missing or undecodable", e.ID, p)
				}
				if bo.Kind != "blob" {
					return fmt.Errorf("entry %q has a file mode but names a %s", p, bo.Kind)
				}
				out[p] = e.ID
			}
		}
		return nil
	}
	if err := walk(treeID, "", 0); err != nil {
		return nil, err
	}
	return out, nil
}

// Snapshot of a commit: flatten(tree of commit).
func (r *Repo) SnapOf(commitID string) (map[string]string, error) {
	c, err := r.Commit(commitID)
	if err != nil {
		return nil, err
	}
	return r.Flatten(c.Tree)
}

// HeadCommit returns the id the HEAD branch holds ("" if HEAD's branch does not exist).
func (r *Repo) HeadCommit() string {
	if !r.HeadOK {
		return ""
	}
	return r.Branches[r.HeadBranch]
}

// Problem is one fsck finding.
type Problem struct {
	Oracle string // C03 oracle id
	Msg    string
}

// Fsck evaluates the connectivity invariant of C03 on a decoded repository.
// If reachableOnly is set, undecodable object files that nothing references are tolerated
// (C15: a half-written unreachable object is fine).
func (r *Repo) Fsck(reachableOnly bool) []Problem {
	var ps []Problem
	add := func(o, f string, a ...any) { ps = append(ps, Problem{o, fmt.Sprintf(f, a...)}) }
	if !r.HeadPresent {
		add("head-shape", "HEAD file is missing")
	} else if !r.HeadOK {
		add("head-shape", "HEAD is %q, not 'ref: refs/heads/<name>'", r.HeadRaw)
	} else if _, ok := r.Branches[r.HeadBranch]; !ok && len(r.Branches) > 0 {
		add("head-branch-exists", "HEAD names branch %q which does not exist while other branches do (%v)", r.HeadBranch, gitfmt.SortedKeys(r.Branches))
	}
	for _, o := range r.RefOddity {
		add("refs-shape", "refs/heads contains %s", o)
	}
	reach := map[string]bool{}
	var visitTree func(id string, where string, depth int)
	visitTree = func(id, where string, depth int) {
		if reach[id] || depth > 64 {
			return
		}
		reach[id] = true
		o, ok := r.Obj(id)
		if !ok {
			add("tree-links", "%s: tree %s missing or undecodable", where, id)
			return
		}
		if o.Kind != "tree" {
			add("tree-links", "%s: %s is a %s, expected tree", where, id, o.Kind)
			return
		}
		ents, err := gitfmt.ParseTree(o.Body)
		if err != nil {
			add("tree-links", "%s: tree %s undecodable: %v", where, id, err)
			return
		}
		for _, e := range ents {
			if e.IsDir() {
				visitTree(e.ID, where+"/"+e.Name, depth+1)
			} else {
				reach[e.ID] = true
				bo, ok := r.Obj(e.ID)
				if !ok {
					add("tree-links", "%s/%s: blob %s missing or undecodable", where, e.Name, e.ID)
				} else if bo.Kind != "blob" {
					add("tree-links", "%s/%s: %s is a %s, expected blob", where, e.Name, e.ID, bo.Kind)
				}
			}
		}
	}
	var visitCommit func(id string, where string)
	visitCommit = func(id, where string) {
		stack := []string{id}
		for len(stack) > 0 {
			cid := stack[len(stack)-1]
			stack = stack[:len(stack)-1]
			if reach[cid] {
				continue
			}
			reach[cid] = true
			c, err := r.Commit(cid)
			if err != nil {
				add("commit-links", "%s: commit %s: %v", where, cid, err)
				continue
			}
			visitTree(c.Tree, "commit "+cid[:7], 0)
			for _, p := range c.Parents {
				if po, ok := r.Obj(p); !ok {
					add("commit-links", "commit %s: parent %s missing or undecodable", cid[:7], p)
				} else if po.Kind != "commit" {
					add("commit-links", "commit %s: parent %s is a %s", cid[:7], p, po.Kind)
				} else {
					stack = append(stack, p)
				}
			}
		}
	}
	for _, name := range gitfmt.SortedKeys(r.Branches) {
		v := r.Branches[name]
		if !gitfmt.IsHex40(v) {
			add("branch-target-commit", "branch %q holds %q, not a 40-hex id", name, v)
			continue
		}
		o, ok := r.Obj(v)
		if !ok {
			add("branch-target-commit", "branch %q names %s which is missing or undecodable", name, v)
			continue
		}
		if o.Kind != "commit" {
			add("branch-target-commit", "branch %q names %s which is a %s", name, v, o.Kind)
			continue
		}
		visitCommit(v, "branch "+name)
	}
	if r.IndexPresent {
		if r.IndexErr != nil {
			add("index-links", "index does not decode: %v", r.IndexErr)
		} else {
			for _, e := range r.Index.Entries {
				reach[e.ID] = true
				o, ok := r.Obj(e.ID)
				if !ok {
					add("index-links", "staged path %q names %s which is missing or undecodable", e.Path, e.ID)
				} else if o.Kind != "blob" {
					add("index-links", "staged path %q names %s which is a %s", e.Path, e.ID, o.Kind)
				}
			}
		}
	}
	for _, id := range gitfmt.SortedKeys(r.Objects) {
		oi := r.Objects[id]
		if reachableOnly && !reach[id] {
			continue
		}
		if oi.Err != nil {
			add("object-name", "object file %s does not decode: %v", id, oi.Err)
		} else if oi.Obj.ContentID != id {
			add("object-name", "object file %s holds content whose SHA-1 is %s", id, oi.Obj.ContentID)
		}
	}
	if !reachableOnly {
		for _, o := range r.ObjOdd {
			// tolerated: tmp files are not objects; report only files that look like objects in wrong place
			_ = o
		}
	}
	return ps
}
