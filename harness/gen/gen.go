// Package gen: seeded generators of names, contents, messages, identities and time zones.
package gen

import (
	"bytes"
	"encoding/binary"
	"fmt"
	"math/rand/v2"
	"os"
	"path/filepath"
	"sort"
	"strings"
)

// ---------------------------------------------------------------------------------------
// Names

type NameOpts struct {
	Space    bool // components containing spaces
	Meta     bool // regexp metacharacters beyond ( ) + .
	NonASCII bool
	MaxDepth int // 1..4
	N        int // approximate number of paths wanted
}

var plainComps = []string{"a", "b", "c", "d", "x", "y", "f", "lib", "test", "src", "main.go", "README", "a1", "z9", "ab", "ad", "da", "d0", "Makefile", "util.c", "x_y", "v1.2"}
var spaceComps = []string{"my file.txt", "a b", "d d", "y z", "new folder", "x  y", "a b c"}
var parenComps = []string{"40000 bytes.txt", "140000 rows.csv", "100644 x", "040000 d", "..notes", "...", "..cache", "HEAD", "index", "config", "refs", "objects", "logs", "a\\b", "back\\slash.txt", "100%", "%s.txt", "Readme", "readme", "SRC", strings.Repeat("n", 120), strings.Repeat("w", 244), strings.Repeat("w", 250), strings.Repeat("w", 255), "a(b", "d(1)", "f(2).txt", "a+b", "c++", "x+y.z", "(x)", "lib-old", "d-old", "d.c", "test.c", "test-data", "lib.go", "a.b", "aXb", "d-a", "d-b"}
var metaComps = []string{"[x]", "a*b", "q?", "p|q", "^s", "e$", "{k}", "a{2}", "x[0]", "a.*", "(?i)a", "a)b", "d+"}
var nonASCII = []string{"é", "日本", "ß", "café", "naïve.txt", "файл", "語", "caf\xe9.txt", "caf\xe8.txt", "\xff\xfe", "na\xefve", "\u00e9\xe9"}

func pick[T any](r *rand.Rand, xs []T) T { return xs[r.IntN(len(xs))] }

// Comp returns one path component.
func Comp(r *rand.Rand, o NameOpts) string {
	pools := [][]string{plainComps, plainComps, parenComps}
	if o.Space {
		pools = append(pools, spaceComps)
	}
	if o.Meta {
		pools = append(pools, metaComps)
	}
	if o.NonASCII {
		pools = append(pools, nonASCII)
	}
	return pick(r, pick(r, pools))
}

// dirFamilies: a directory name together with siblings whose names sort around "<dir>/".
func family(r *rand.Rand, o NameOpts) []string {
	cands := []string{"d", "lib", "test", "src", "a"}
	if o.Space {
		cands = append(cands, "a b", "d d")
	}
	if o.Meta {
		cands = append(cands, "a(b", "a+b", "[x]", "a.b")
	} else {
		cands = append(cands, "a(b", "a+b", "a.b")
	}
	if o.NonASCII {
		cands = append(cands, "é", "日本")
	}
	D := pick(r, cands)
	inner := []string{"x", "y", "main.go", "sub/f", "sub/g h", "z-last", "a.b", "X", "Main.go", "Sub/f"}
	if !o.Space {
		inner = []string{"x", "y", "main.go", "sub/f", "sub/g", "z-last", "a.b", "X", "Main.go", "Sub/f"}
	}
	// echoes: the directory's own name again beneath it, as a whole component and as the beginning of one
	inner = append(inner, D, D+"x.c", "sub/sub", "sub/subway.c", "sub/x/sub", D+"/"+D)
	if r.IntN(4) == 0 {
		// paths that are also the names of Goit's own files
		return []string{"HEAD", "index", "refs/heads/main", "logs/HEAD", "config", D + "/HEAD"}
	}
	var out []string
	nIn := 1 + r.IntN(3)
	for i := 0; i < nIn; i++ {
		out = append(out, D+"/"+pick(r, inner))
	}
	sibs := []string{D + "-old", D + ".c", D + ".go", D + "-data", D + "0", D + "a", D + "(1)", D + "+", "a" + D + "/x", "x" + D + "/y", "a/" + D + "/b", D + "-a", D + "-b", D + "-c", D + "_"}
	if o.Space {
		sibs = append(sibs, D+" d", D+" ")
	}
	if o.Meta {
		sibs = append(sibs, D+"*", D+"?")
	}
	// remove names with trailing space (leave those to explicit hostile tests)
	nS := 1 + r.IntN(4)
	for i := 0; i < nS; i++ {
		s := pick(r, sibs)
		if strings.HasSuffix(s, " ") {
			continue
		}
		out = append(out, s)
	}
	if r.IntN(3) == 0 {
		// siblings that are themselves directories
		out = append(out, D+"-old/x", D+".d/y")
	}
	return out
}

// NameSet returns a conflict-free set of relative file paths (no path is a prefix directory
// of another path that is a file), sorted.
func NameSet(r *rand.Rand, o NameOpts) []string {
	if o.MaxDepth == 0 {
		o.MaxDepth = 3
	}
	if o.N == 0 {
		o.N = 6
	}
	set := map[string]bool{}
	add := func(p string) {
		if !ValidPath(p) {
			return
		}
		// conflict check
		for q := range set {
			if q == p || strings.HasPrefix(q, p+"/") || strings.HasPrefix(p, q+"/") {
				return
			}
		}
		set[p] = true
	}
	nf := 1 + r.IntN(2)
	for i := 0; i < nf; i++ {
		for _, p := range family(r, o) {
			add(p)
		}
	}
	for len(set) < o.N {
		depth := 1 + r.IntN(o.MaxDepth)
		parts := make([]string, depth)
		for i := range parts {
			parts[i] = Comp(r, o)
		}
		add(strings.Join(parts, "/"))
	}
	out := make([]string, 0, len(set))
	for p := range set {
		out = append(out, p)
	}
	sort.Strings(out)
	return out
}

// ValidPath: the name domain the monitors cover (see DESIGN §3.5 exclusions).
func ValidPath(p string) bool {
	if p == "" || len(p) > 700 {
		return false
	}
	for _, c := range strings.Split(p, "/") {
		if len(c) > 255 {
			return false
		}
		if c == "" || c == "." || c == ".." || strings.HasPrefix(c, "-") || strings.HasPrefix(c, ".goit") {
			return false
		}
		if strings.ContainsAny(c, "\x00\n\r\t") || strings.HasSuffix(c, " ") || strings.HasPrefix(c, " ") {
			return false
		}
	}
	return true
}

// ---------------------------------------------------------------------------------------
// Contents

var headerLookalikes = [][]byte{
	[]byte("blob 3\x00abc"), []byte("123"), []byte(" 5"), []byte("tree 0\x00"), []byte("commit 10\x00tree "), []byte("blob 0\x00"),
	[]byte("0"), []byte("blob"), []byte("blob \x00"), []byte("100644 a\x00"), []byte("DIRC"),
}

var magicHeads = [][]byte{{0xef, 0xbb, 0xbf}, {0xff, 0xfe}, {0xfe, 0xff}, []byte("#!/bin/sh\n"), {0x1f, 0x8b, 0x08}, []byte("PK\x03\x04"), []byte("\x7fELF"), []byte("\x89PNG\r\n\x1a\n"), {0}, []byte("%PDF-1.7\n"), []byte("DIRC"), []byte("ref: refs/heads/main"), {0xff, 0xfe, 0, 0}, {0x78, 0x9c}, []byte("\n"), []byte(" \t")}
var magicTails = [][]byte{{}, []byte("name = v\n"), {0, 1, 0xff, 0xfe, ' ', 'b', 'i', 'n'}, []byte("text\r"), []byte("text\r\n"), []byte("text\n\n\n"), []byte("text \t ")}

// MagicContent is the i-th content that starts (or ends) with bytes something might take for a mark rather than
// content: byte order marks, a shebang, archive and image magic numbers, a leading NUL, leading/trailing white space,
// a trailing CR.
func MagicContent(i int) []byte {
	m := magicHeads[i%len(magicHeads)]
	t := magicTails[(i/len(magicHeads))%len(magicTails)]
	return append(append([]byte{}, m...), t...)
}

// Content returns (bytes, class).
func Content(r *rand.Rand, maxSize int) ([]byte, string) {
	switch r.IntN(12) {
	case 0:
		return []byte{}, "empty"
	case 1:
		return []byte{byte(r.IntN(256))}, "single-byte"
	case 2:
		n := 1 + r.IntN(64)
		b := make([]byte, n)
		for i := range b {
			if r.IntN(3) == 0 {
				b[i] = 0
			} else {
				b[i] = byte(r.IntN(256))
			}
		}
		return b, "nul-rich"
	case 3:
		return []byte(strings.Repeat("line\r\n", 1+r.IntN(20))), "crlf"
	case 4:
		return []byte{0xff, 0xfe, 0xc3, 0x28, 0xa0, 0xa1, 0xe2, 0x28, 0xa1}, "invalid-utf8"
	case 5:
		return append([]byte{}, pick(r, headerLookalikes)...), "header-lookalike"
	case 6:
		n := boundarySize(r, maxSize)
		return bytes.Repeat([]byte{byte('a' + r.IntN(26))}, n), "run"
	case 7:
		n := boundarySize(r, maxSize)
		b := make([]byte, n)
		fillRandom(r, b)
		return b, "random"
	case 8:
		if r.IntN(2) == 0 {
			// bytes that something might take for a mark rather than content: byte order marks, a shebang, archive and image
			// magic numbers, a leading NUL, a trailing CR, no final newline
			return MagicContent(r.IntN(1 << 20)), "magic-prefix"
		}
		return []byte("hello\n"), "text"
	case 9:
		return []byte(fmt.Sprintf("v%d\nsecond line\n\nlast without newline", r.IntN(1000))), "text-multiline"
	case 10:
		return []byte("日本語 café ß\n"), "utf8"
	default:
		n := r.IntN(200)
		b := make([]byte, n)
		fillRandom(r, b)
		return b, "random-small"
	}
}

func fillRandom(r *rand.Rand, b []byte) {
	i := 0
	for ; i+8 <= len(b); i += 8 {
		binary.LittleEndian.PutUint64(b[i:], r.Uint64())
	}
	for ; i < len(b); i++ {
		b[i] = byte(r.IntN(256))
	}
}

func boundarySize(r *rand.Rand, max int) int {
	sizes := []int{0, 1, 2, 63, 64, 65, 255, 256, 257, 4095, 4096, 4097, 65535, 65536, 65537}
	if max >= 1<<20 {
		sizes = append(sizes, 1<<20)
	}
	if max >= 4<<20 {
		sizes = append(sizes, 4<<20)
	}
	if max >= 16<<20 {
		sizes = append(sizes, 16<<20)
	}
	for {
		s := pick(r, sizes)
		if s <= max {
			return s
		}
	}
}

// SmallText returns distinct short text content for history files.
func SmallText(r *rand.Rand) []byte {
	return []byte(fmt.Sprintf("content %d\n", r.Uint32()))
}

// ---------------------------------------------------------------------------------------
// Messages, identities

// Message returns (message, class). Classes follow the C11/C12 quantifiers.
func Message(r *rand.Rand, counter int) (string, string) {
	u := fmt.Sprintf("m%d", counter)
	switch r.IntN(20) {
	case 14:
		return "", "empty"
	case 15:
		return "  \n" + u + " body after a blank first line", "blank-first-line"
	case 16:
		return "\n" + u + " body after an empty first line", "empty-first-line"
	case 17:
		switch r.IntN(4) {
		case 0:
			// one line beyond 64 KiB (a single argument may be 128 KiB long): ASCII, and mostly multi-byte characters
			return u + " " + strings.Repeat("w", 70000), "line-70000"
		case 1:
			return u + " " + strings.Repeat("\u00e9\u65e5", 15000), "line-75000-multibyte"
		case 2:
			return u + " " + strings.Repeat("v", 130990-len(u)), "line-131000"
		}
		return u + " " + strings.Repeat("x", 4096-len(u)-1), "line-4096"
	case 18:
		switch r.IntN(4) {
		case 0:
			// a commit object beyond 64 KiB whose message has MANY lines (a reader that keeps slices of a refilled buffer mixes them up)
			var b strings.Builder
			b.WriteString(u + " subject: import the generated tables\n\n")
			for i := 0; i < 30; i++ {
				b.WriteString(fmt.Sprintf("line %02d ", i) + strings.Repeat(string(rune('a'+i%26)), 3000) + "\n")
			}
			b.WriteString("last line")
			return b.String(), "multi-line-90KB"
		case 1:
			// line feeds at the very end are part of the message
			return u + pick(r, []string{" ends with one line feed\n", " ends with two line feeds\n\n", " body\n\nends with three\n\n\n"}), "trailing-line-feeds"
		}
		return u + " subject\n\n" + strings.Repeat("y", 5000) + "\nend", "line-5000"
	case 19:
		if r.IntN(2) == 0 {
			// carriage returns: at the end of the subject, as CR LF line ends, alone inside a line, at the very end
			return pick(r, []string{u + " subject\r", u + " l1\r\nl2\r\n\r\nbody\r\nlast", u + " progress 10%\rprogress 100%", u + " a\r\rb\n\rc\r", "\r" + u + " cr first"}), "carriage-return"
		}
		return u + " " + strings.Repeat("z", 9000), "line-9000"
	case 12:
		return u + " raise coverage to 100% (was 87%)", "percent"
	case 13:
		return u + " fix %s placeholder, %d count, %v and 50%", "percent-verbs"
	case 0:
		return u + ": fix: the thing", "colon-space"
	case 1:
		return u + "\twith\ttabs", "tab"
	case 2:
		return u + " subject\n\nbody line one\nbody line two has four words", "multi-line-3words"
	case 3:
		return u + " subject\nsecond", "multi-line"
	case 4:
		return "  " + u + " leading and trailing  ", "blanks"
	case 5:
		return u + "\n\n\nblank lines above", "blank-lines"
	case 6:
		return u + " 日本語 café ß", "non-ascii"
	case 7:
		return u + " " + strings.Repeat("long ", 600), "kib-line"
	case 8:
		return u + " a: b: c\td: e", "colon-tab-mix"
	case 9:
		return u + " one two three four five", "words"
	case 10:
		return u + "\nreset: moving to HEAD@{1}\ncommit: x y z", "log-lookalike"
	default:
		return u + " plain", "plain"
	}
}

func Identity(r *rand.Rand) (name, email, class string) {
	names := []struct{ n, c string }{
		{"Alice", "plain"}, {"Alice B. Carol", "spaces"}, {"José Núñez", "non-ascii"}, {"山田 太郎", "non-ascii"},
		{"O'Neil", "quote"}, {"a>b", "gt"}, {"Q> A team", "gt-space"}, {"\"Ann Lee\"", "quoted-literal"}, {"`bot`", "quoted-literal"}, {"'x'", "quoted-literal"}, {"\"a\\tb\"", "quoted-literal"}, {"Ren\ufffde M\ufffdller", "replacement-char"}, {"\ufffd", "replacement-char"}, {"50%% off", "percent"}, {"100% sure Jun", "percent"}, {"a > b > c", "gt-space"}, {"x>", "gt"}, {"> lead", "gt-space"}, {"Mr 100% X", "percent"}, {"Ann  Lee", "double-space"}, {"a   b  c", "double-space"}, {"%s %d", "percent-verbs"}, {"Dr. X (PhD)", "paren"}, {"x=y", "equals"}, {"#1 dev", "hash"}, {"[bot]", "bracket"},
	}
	emails := []string{"a@example.com", "first.last@sub.example.org", "x_y+tag@a-b.co", "u@d.io", "A.B-c@x1.y2.museum"}
	n := pick(r, names)
	return n.n, pick(r, emails), n.c
}

// ---------------------------------------------------------------------------------------
// Time zones: synthetic TZif v1 files with one fixed offset

// TZOffsets returns all quarter-hour offsets in minutes in [-12:00, +14:00].
func TZOffsets() []int {
	var out []int
	for m := -12 * 60; m <= 14*60; m += 15 {
		out = append(out, m)
	}
	return out
}

func TZName(offMin int) string {
	sign := '+'
	a := offMin
	if a < 0 {
		sign = '-'
		a = -a
	}
	return fmt.Sprintf("%c%02d%02d", sign, a/60, a%60)
}

func tzif(offSec int32) []byte {
	var b bytes.Buffer
	b.WriteString("TZif")
	b.WriteByte(0)
	b.Write(make([]byte, 15))
	for _, v := range []uint32{0, 0, 0, 0, 1, 4} { // isutc, isstd, leap, time, type, char
		binary.Write(&b, binary.BigEndian, v)
	}
	binary.Write(&b, binary.BigEndian, offSec)
	b.WriteByte(0) // isdst
	b.WriteByte(0) // abbrind
	b.WriteString("VRF\x00")
	return b.Bytes()
}

// TZifTransition: a zone that is at offBefore seconds east of UTC until the instant at and at offAfter from then on
// (the end, or the start, of daylight saving time: wall-clock times around it are repeated or skipped).
func TZifTransition(offBefore, offAfter int32, at int32) []byte {
	var b bytes.Buffer
	b.WriteString("TZif")
	b.WriteByte(0)
	b.Write(make([]byte, 15))
	for _, v := range []uint32{0, 0, 0, 1, 2, 8} { // isutc, isstd, leap, time, type, char
		binary.Write(&b, binary.BigEndian, v)
	}
	binary.Write(&b, binary.BigEndian, at)
	b.WriteByte(1) // the transition switches to type 1; type 0 is what holds before it
	binary.Write(&b, binary.BigEndian, offBefore)
	b.WriteByte(1)
	b.WriteByte(0)
	binary.Write(&b, binary.BigEndian, offAfter)
	b.WriteByte(0)
	b.WriteByte(4)
	b.WriteString("VDT\x00VST\x00")
	return b.Bytes()
}

// WriteTZFiles writes one TZif file per quarter-hour offset and returns offsetMinutes -> abs path.
func WriteTZFiles(dir string) (map[int]string, error) {
	if err := os.MkdirAll(dir, 0o777); err != nil {
		return nil, err
	}
	out := map[int]string{}
	for _, m := range TZOffsets() {
		p := filepath.Join(dir, "tz"+strings.NewReplacer("+", "p", "-", "m").Replace(TZName(m)))
		if err := os.WriteFile(p, tzif(int32(m*60)), 0o666); err != nil {
			return nil, err
		}
		out[m] = p
	}
	return out, nil
}
